import sys, dis, opcode, types, collections, importlib, traceback
from numba_scfg.core.datastructures.byte_flow import ByteFlow
mods=['json','json.decoder','json.encoder','textwrap','collections','argparse','ast','heapq','bisect','shlex','string','statistics','fractions','random','difflib','csv','copy','pprint','inspect','dis','tokenize','os','posixpath','re','functools','itertools','typing','dataclasses','enum','logging','email.utils','urllib.parse','configparser','calendar','datetime','decimal','numbers','glob','fnmatch','shutil','tempfile','zipfile','tarfile','gzip','base64','binascii','hashlib','hmac','uuid','ipaddress','html.parser','http.client','pathlib','pickle','struct','queue','sched','threading','subprocess','socket','ssl','selectors','asyncio.base_events','unittest.case','doctest','pdb','cmd','code','codeop','optparse','getopt','gettext','locale','mimetypes','plistlib','xml.etree.ElementTree','sre_parse','sre_compile','smtplib','ftplib','imaplib','poplib','nntplib' ,'turtle','tkinter','pydoc','trace','timeit','cProfile','profile','pstats','symtable','tabnanny','py_compile','compileall','zipapp','venv','ensurepip','wave','colorsys','sndhdr','imghdr','aifc','chunk','sunau','mailbox','mailcap','netrc','pkgutil','modulefinder','runpy','importlib._bootstrap','importlib._bootstrap_external','abc','contextlib','operator','reprlib','weakref','types','warnings','traceback','linecache','codecs','io','_pyio','_pydecimal','_strptime','bdb','cgi','cgitb','filecmp','fileinput','ftplib','getpass','graphlib','imp','keyword','lzma','bz2','nturl2path','opcode','pickletools','platform','pty','quopri','rlcompleter','secrets','shelve','signal','site','socketserver','stat','stringprep','sysconfig','telnetlib','token','tty','uu','webbrowser','xdrlib','zoneinfo']
funcs=[]
seen=set()
def collect(obj,depth=0):
    if isinstance(obj,types.FunctionType):
        if obj.__code__ not in seen: seen.add(obj.__code__); funcs.append(obj)
    elif isinstance(obj,type) and depth<2:
        for v in list(vars(obj).values()):
            if isinstance(v,(staticmethod,classmethod)): v=v.__func__
            if isinstance(v,property): v=v.fget
            collect(v,depth+1)
for m in mods:
    try: mod=importlib.import_module(m)
    except Exception: continue
    for v in list(vars(mod).values()):
        if getattr(v,'__module__',None)==mod.__name__: collect(v)
print(len(funcs),'functions')
def eligible(code):
    if code.co_flags & (0x20|0x80|0x100|0x200): return False  # generator/coroutine/async gen
    if code.co_exceptiontable: return False
    for i in dis.get_instructions(code):
        if i.opname in ('RAISE_VARARGS','RERAISE','YIELD_VALUE','RETURN_GENERATOR','SEND'): return False
    return True
c=collections.Counter(); ex={}
ops=collections.Counter()
for f in funcs:
    if not eligible(f.__code__): c['inelig']+=1; continue
    for i in dis.get_instructions(f.__code__):
        if i.opcode in opcode.hasjrel or i.opcode in opcode.hasjabs or 'RETURN' in i.opname: ops[i.opname]+=1
    try:
        bf=ByteFlow.from_bytecode(f); c['built']+=1
    except Exception as e:
        k=(type(e).__name__, traceback.extract_tb(e.__traceback__)[-1][1:3]); c[k]+=1; ex.setdefault(k,f.__qualname__)
print(c); print(ex); print(ops)
