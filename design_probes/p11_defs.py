import sys, random, collections, traceback
sys.path.insert(0,'/tmp/probe')
from gen import *; from oracle import *
from numba_scfg.core.datastructures.basic_block import *

def structured(scfg):
    blocks,regions=flatten(scfg)
    def level(g, owner):
        names=set(g.graph)
        # acyclic ignoring backedges
        adj={k:[t for t in b.jump_targets if t in names] for k,b in g.graph.items()}
        color={}
        def dfs(u):
            color[u]=1
            for v in adj[u]:
                if color.get(v)==1: raise Viol(f"cycle at level {owner} via {u}->{v}")
                if v not in color: dfs(v)
            color[u]=2
        for u in adj:
            if u not in color: dfs(u)
        for k,b in g.graph.items():
            jt=b.jump_targets
            if len(jt)>1:
                if isinstance(b,RegionBlock):
                    if b.kind!='head': raise Viol(f"region {k} kind {b.kind} has {len(jt)} successors")
                    if len(set(jt))!=len(jt): raise Viol(f"head {k} dup successors")
                    conts=set()
                    for t in jt:
                        r=g.graph.get(t)
                        if not isinstance(r,RegionBlock) or r.kind!='branch': raise Viol(f"head {k} successor {t} not a branch region at same level")
                        if len(r.jump_targets)!=1: raise Viol(f"branch {t} has {len(r.jump_targets)} continuations")
                        conts.add(r.jump_targets[0])
                    if len(conts)!=1: raise Viol(f"branches of {k} continue to {conts}")
                    tl=g.graph.get(next(iter(conts)))
                    if not isinstance(tl,RegionBlock) or tl.kind!='tail': raise Viol(f"continuation of {k} is not tail region")
                else:
                    own=owner
                    if own is None or own.kind!='head' or own.exiting!=k: raise Viol(f"block {k} with {len(jt)} succ not exiting of head region (owner {own and own.name} kind {own and own.kind})")
            if isinstance(b,RegionBlock): level(b.subregion,b)
    level(scfg,None)
    # loop regions
    for rn,r in regions.items():
        if r.kind!='loop': continue
        hdr=resolve(r.header,blocks,regions)
        inside,_=flatten(r.subregion)
        be=[(k,t) for k,b in inside.items() for t in b.backedges if resolve(t,blocks,regions)==hdr]
        ex=r.subregion.graph[r.exiting]
        while isinstance(ex,RegionBlock): ex=ex.subregion.graph[ex.exiting]
        if len(be)!=1 or be[0][0]!=ex.name: raise Viol(f"loop {rn} backedges {be} exiting {ex.name}")
    # all cycles use backedges: flat graph minus backedges acyclic
    adj={k:[resolve(t,blocks,regions) for t in b.jump_targets] for k,b in blocks.items()}
    color={}
    import sys as _s; _s.setrecursionlimit(10000)
    def dfs(u):
        color[u]=1
        for v in adj[u]:
            if color.get(v)==1: raise Viol("flat cycle without backedge")
            if v not in color: dfs(v)
        color[u]=2
    for u in adj:
        if u not in color: dfs(u)

