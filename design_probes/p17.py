import sys, os, collections, time
import hypothesis
from hypothesis import given, settings, strategies as st, HealthCheck, seed
sys.path.insert(0,'/tmp/probe')
from gen import closed, mk
from oracle import *

def repair(n, raw):
    """raw: list of tuples of successor indices (0..n-1). returns closed succ dict with nodes renumbered, or None"""
    succ={i:tuple(dict.fromkeys(t for t in raw[i] if t!=0))[:2] for i in range(n)}
    while True:
        # reachable from 0
        seen={0}; stk=[0]
        while stk:
            x=stk.pop()
            for s in succ[x]:
                if s not in seen: seen.add(s); stk.append(s)
        succ={i:tuple(s for s in ss) for i,ss in succ.items() if i in seen}
        # can reach exit
        preds=collections.defaultdict(set)
        for i,ss in succ.items():
            for s in ss: preds[s].add(i)
        exits=[i for i,ss in succ.items() if not ss]
        good=set(exits); stk=list(exits)
        while stk:
            x=stk.pop()
            for p in preds[x]:
                if p not in good: good.add(p); stk.append(p)
        bad=[i for i in succ if i not in good]
        if not bad: break
        # make the largest-index bad node an exit
        succ[max(bad)]=()
    order=sorted(succ)
    ren={o:i for i,o in enumerate(order)}
    return {ren[i]:tuple(ren[s] for s in ss) for i,ss in succ.items()}

@st.composite
def cfgs(draw, maxn=14):
    n=draw(st.integers(2,maxn))
    raw=[]
    for i in range(n):
        k=draw(st.sampled_from([0,1,1,2,2,2])) if i else draw(st.sampled_from([1,2,2]))
        # bias: forward edges mostly, some back edges
        k=min(k,n-1); t=draw(st.lists(st.integers(1,n-1),min_size=k,max_size=k,unique=True))
        raw.append(tuple(t))
    return repair(n,raw)

def classify(succ):
    n=len(succ)
    # sccs by mutual reachability
    reach={}
    for a in succ:
        seen=set(); stk=list(succ[a])
        while stk:
            x=stk.pop()
            if x in seen: continue
            seen.add(x); stk.extend(succ[x])
        reach[a]=seen
    comps=set()
    for a in succ:
        if a in reach[a]: comps.add(frozenset(b for b in succ if b in reach[a] and a in reach[b]))
    cls=set()
    for c in comps:
        hdr={s for a in succ if a not in c for s in succ[a] if s in c}
        ex={s for a in c for s in succ[a] if s not in c}
        if len(hdr)>1: cls.add('multi-entry(irreducible)')
        if len(ex)>1: cls.add('multi-exit')
        lat=[a for a in c if any(s in hdr for s in succ[a])]
        if len(lat)>1: cls.add('multi-latch')
    if len(comps)>1: cls.add('multi-loop')
    if not comps: cls.add('acyclic')
    if sum(1 for ss in succ.values() if len(ss)==2)>=2: cls.add('>=2 branches')
    return cls
C=collections.Counter(); sizes=collections.Counter(); N=[0]
@seed(int(os.environ.get('VERIF_SEED','1')))
@settings(max_examples=3000, deadline=None, database=None, suppress_health_check=[], derandomize=False)
@given(cfgs())
def test(succ):
    N[0]+=1
    n=len(succ); assert closed(succ,n)
    sizes[n]+=1
    for c in classify(succ): C[c]+=1
    s=mk(succ); s.restructure()
    orig={str(k):tuple(str(x) for x in v) for k,v in succ.items()}
    check_flat(orig,s,set(orig)); check_region(orig,s,set(orig))
if __name__=="__main__":
  t=time.time(); test(); print(N[0], round(time.time()-t,1),'s'); print(C); print(sorted(sizes.items()))
