import sys, dis, opcode, types, collections, importlib, traceback, io, contextlib
from numba_scfg.core.datastructures.byte_flow import ByteFlow
exec(open('/tmp/probe/p6.py').read().split("print(len(funcs),'functions')")[0].replace("import sys, dis, opcode, types, collections, importlib, traceback",""))
NOFALL={'JUMP_FORWARD','JUMP_BACKWARD','JUMP_BACKWARD_NO_INTERRUPT','JUMP_ABSOLUTE','JUMP_NO_INTERRUPT','JUMP','RETURN_VALUE','RETURN_CONST','RAISE_VARARGS','RERAISE'}
JUMPS=set(opcode.hasjrel)|set(opcode.hasjabs)
def eligible(code):
    if code.co_flags & (0x20|0x80|0x100|0x200): return False
    if getattr(code,'co_exceptiontable',b''): return False
    for i in dis.get_instructions(code):
        if i.opname in ('RAISE_VARARGS','RERAISE','YIELD_VALUE','RETURN_GENERATOR','SEND'): return False
    return True
class V(Exception): pass
def check(f):
    code=f.__code__
    ins=list(dis.get_instructions(code))
    offs=[i.offset for i in ins]
    bf=ByteFlow.from_bytecode(f)
    blocks=sorted(bf.scfg.graph.values(), key=lambda b:b.begin)
    # tiling
    if blocks[0].begin!=0: raise V('first begin')
    for a,b in zip(blocks,blocks[1:]):
        if a.end!=b.begin: raise V('gap/overlap')
    if blocks[-1].end!=len(code.co_code): raise V(f'last end {blocks[-1].end} != {len(code.co_code)}')
    def blk_of(off):
        for b in blocks:
            if b.begin<=off<b.end: return b
        raise V('offset in no block')
    first={}; last={}
    for i in ins:
        b=blk_of(i.offset); first.setdefault(b.name,i.offset); last[b.name]=i.offset
    if len(first)!=len(blocks): raise V('block without instruction')
    nxt={a:b for a,b in zip(offs,offs[1:])}
    for i in ins:
        b=blk_of(i.offset)
        isj=i.opcode in JUMPS
        if isj:
            t=i.argval
            if first[blk_of(t).name]!=t: raise V(f'jump target {t} not first instr of block')
        if isj or i.opname in NOFALL:
            if last[b.name]!=i.offset: raise V(f'{i.opname} at {i.offset} not last in block')
    for b in blocks:
        li=[i for i in ins if i.offset==last[b.name]][0]
        exp=[]
        if li.opname not in NOFALL:
            if li.offset not in nxt: raise V('falls off end')
            exp.append(blk_of(nxt[li.offset]).name)
            if first[exp[-1]]!=nxt[li.offset]: raise V('fallthrough not first')
        if li.opcode in JUMPS: exp.append(blk_of(li.argval).name)
        if tuple(exp)!=b._jump_targets: raise V(f'succ of {b.name} {b._jump_targets} expected {exp} ({li.opname})')
c=collections.Counter(); ex={}
for f in funcs:
    if not eligible(f.__code__): c['inelig']+=1; continue
    try: check(f); c['ok']+=1
    except V as e:
        import re; k=re.sub(r'[0-9]+','N',str(e))[:60]; c[k]+=1; ex.setdefault(k,(f.__module__,f.__qualname__,str(e)))
    except Exception as e:
        k=('exc',type(e).__name__,traceback.extract_tb(e.__traceback__)[-1][1:3]); c[k]+=1; ex.setdefault(k,(f.__module__,f.__qualname__))
print(sys.version_info[:2],c)
for k,v in ex.items(): print(k,v)
