import sys, ast
sys.path.insert(0,'/tmp/probe')
from pgen import *
from numba_scfg import AST2SCFG, SCFG2AST
src=sys.argv[1]; tape=eval(sys.argv[2])
scfg=AST2SCFG(src); 
for k,b in scfg.graph.items(): print(k,[ast.unparse(t) for t in b.tree],b._jump_targets)
scfg.restructure(); tr=SCFG2AST(src,scfg)
out=ast.unparse(ast.fix_missing_locations(ast.Module([tr],[])))
print(out)
print(run(src,'f',tape)); print(run(out,'transformed_f',tape))
