import sys, os, collections
import hypothesis
from hypothesis import settings, strategies as st, seed
from hypothesis.stateful import RuleBasedStateMachine, rule, invariant, precondition, initialize, run_state_machine_as_test
sys.path.insert(0,'/tmp/probe')
from p17 import cfgs  # noqa (runs test at import? guard)
from gen import mk
from oracle import *
from numba_scfg.core.datastructures.basic_block import *
from numba_scfg.core.datastructures.scfg import SCFG
STAT=collections.Counter()
class M(RuleBasedStateMachine):
    @initialize(succ=cfgs(maxn=8))
    def init(self,succ):
        self.real=mk(succ)
        self.model={str(k):[str(x) for x in v] for k,v in succ.items()}
        self.kind={k:'BasicBlock' for k in self.model}
        self.orig={k:tuple(v) for k,v in self.model.items()}
        self.ctrl_only=True
        self.n=0
    def newname(self):
        self.n+=1; return f"new_{self.n}"
    @rule(data=st.data(), typ=st.sampled_from(['Exit','Tail','Return','Fill']))
    def insert(self,data,typ):
        names=sorted(self.model)
        P=data.draw(st.lists(st.sampled_from(names),min_size=1,max_size=3,unique=True))
        cand=sorted({s for p in P for s in self.model[p]})
        S=data.draw(st.lists(st.sampled_from(cand),max_size=3,unique=True)) if cand else []
        new=self.newname()
        # skip branching synthetic predecessor with 2 targets in S on pinned tree? no: let it fail
        getattr(self.real,'insert_Synthetic'+typ)(new,P,S)
        # model
        merged=False
        for p in P:
            jt=self.model[p]
            if S:
                hit=[i for i,t in enumerate(jt) if t in S]
                if hit:
                    if len(hit)>1: merged=True
                    out=[]; placed=False
                    for i,t in enumerate(jt):
                        if t in S:
                            if not placed: out.append(new); placed=True
                        else: out.append(t)
                    self.model[p]=out
            else:
                self.model[p]=jt+[new]
        self.model[new]=list(S); self.kind[new]='Synthetic'+typ
        self.ctrl_only=False
        STAT['insert']+=1; STAT['merged']+=merged
    @rule(data=st.data())
    def insert_ctrl(self,data):
        names=sorted(self.model)
        P=data.draw(st.lists(st.sampled_from(names),min_size=1,max_size=3,unique=True))
        cand=sorted({s for p in P for s in self.model[p]})
        if not cand: return
        S=data.draw(st.lists(st.sampled_from(cand),min_size=1,max_size=3,unique=True))
        new=self.newname()
        self.real.insert_block_and_control_blocks(new,P,S)
        STAT['ctrl']+=1
        # structural: every arc p->s (s in S) now p->assign->new ; new -> S
        blocks=self.real.graph
        assert blocks[new]._jump_targets==tuple(S)
        for p in P:
            old=self.model[p]; cur=list(blocks[p]._jump_targets)
            assert len(old)==len(cur)
            for o,c in zip(old,cur):
                if o in S:
                    a=blocks[c]; assert isinstance(a,SyntheticAssignment) and a._jump_targets==(new,)
                    v=a.variable_assignment[blocks[new].variable]
                    assert blocks[new].branch_value_table[v]==o
                    self.model[c]=[new]; self.kind[c]='SyntheticAssignment'
                else: assert o==c
            self.model[p]=cur
        self.model[new]=list(S); self.kind[new]='SyntheticHead'
    @invariant()
    def same(self):
        if not hasattr(self,'real'): return
        g=self.real.graph
        assert set(g)==set(self.model), (set(g)^set(self.model))
        for k,b in g.items():
            assert list(b._jump_targets)==self.model[k], (k,b._jump_targets,self.model[k])
            assert type(b).__name__==self.kind[k]
            if isinstance(b,SyntheticBranch):
                assert set(b.branch_value_table.values())==set(b._jump_targets),(k,b)
    @invariant()
    def paths(self):
        if not hasattr(self,'real') or not self.ctrl_only: return
        check_flat(self.orig,self.real,set(self.orig))
run_state_machine_as_test(seed(int(os.environ.get('VERIF_SEED','1')))(M), settings=settings(max_examples=int(sys.argv[1]) if len(sys.argv)>1 else 300, stateful_step_count=8, deadline=None, database=None))
print(STAT)
