import sys, random, itertools, collections, traceback, ast, re
sys.path.insert(0,'/tmp/probe')
from pgen import *
from numba_scfg import AST2SCFG, SCFG2AST
feats={'exprs':sys.argv[2].split(',')}
rng=random.Random(int(sys.argv[1]))
c=collections.Counter(); ex={}
N=int(sys.argv[3]) if len(sys.argv)>3 else 1500
for t in range(N):
    src=G(rng,feats).func()
    try:
        scfg=AST2SCFG(src); scfg.restructure(); tr=SCFG2AST(src,scfg)
        out=ast.unparse(ast.fix_missing_locations(ast.Module([tr],[])))
        compile(out,'<o>','exec')
    except NotImplementedError as e_:
        tb=traceback.extract_tb(e_.__traceback__)[-1]; c[('refuse',tb.name,tb.lineno)]+=1; continue
    except Exception as e_:
        tb=traceback.extract_tb(e_.__traceback__)[-1]
        k=('internal',type(e_).__name__,tb.filename.split('/')[-1],tb.lineno); c[k]+=1
        if k not in ex or len(src)<len(ex[k]): ex[k]=src
        continue
    bad=None
    for L in range(0,7):
        for tape in itertools.product([0,1],repeat=L):
            r1=run(src,'f',tape); r2=run(out,'transformed_f',tape)
            if r1[0]==('budget',) or r2[0]==('budget',): c['budget']+=1; continue
            if r1!=r2: bad=(tape,r1[0],r2[0]); break
        if bad: break
    if bad:
        k=('mismatch',bad[1][0],bad[2][0]); c[k]+=1
        if k not in ex or len(src)<len(ex[k]): ex[k]=src+'\n# '+repr(bad)
    else: c['ok']+=1
for k,v in sorted(c.items(),key=str): print(k,v)
for k,v in ex.items(): print('----',k); print(v)
