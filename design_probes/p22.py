import ast, sys, traceback, collections
from numba_scfg.core.datastructures.ast_transforms import AST2SCFGTransformer
supported={ast.FunctionDef,ast.Assign,ast.AugAssign,ast.Expr,ast.Return,ast.Pass,ast.If,ast.While,ast.For,ast.Break,ast.Continue}
def subclasses(c):
    for s in c.__subclasses__():
        yield s; yield from subclasses(s)
uns=sorted({c for c in subclasses(ast.stmt)}-supported|{ast.FunctionDef},key=lambda c:c.__name__)
snip={
 'AnnAssign':'q: int = 1','Assert':'assert a','AsyncFor':None,'AsyncFunctionDef':'async def g(): pass','AsyncWith':None,
 'ClassDef':'class K: pass','Delete':'del a','FunctionDef':'def g(): return 1','Global':'global zz','Import':'import os','ImportFrom':'from os import path',
 'Match':'match a:\n    case 1:\n        pass','Nonlocal':None,'Raise':'raise ValueError','Try':'try:\n    pass\nexcept Exception:\n    pass','TryStar':'try:\n    pass\nexcept* Exception:\n    pass',
 'TypeAlias':'type T = int','With':'with a:\n    pass'}
def node_for(c):
    s=snip.get(c.__name__)
    if s: return ast.parse(s).body[0]
    if c is ast.AsyncFor: return ast.AsyncFor(target=ast.Name('i',ast.Store()),iter=ast.Name('a',ast.Load()),body=[ast.Pass()],orelse=[])
    if c is ast.AsyncWith: return ast.AsyncWith(items=[ast.withitem(ast.Name('a',ast.Load()))],body=[ast.Pass()])
    if c is ast.Nonlocal: return ast.Nonlocal(names=['zz'])
    raise KeyError(c)
skeletons={
 'top':"def f(a,b):\n    a=1\n    MARK\n    return a",
 'if':"def f(a,b):\n    if a:\n        MARK\n    return a",
 'else':"def f(a,b):\n    if a:\n        pass\n    else:\n        MARK\n    return a",
 'loop':"def f(a,b):\n    while a:\n        MARK\n        a-=1\n    return a",
 'loopelse':"def f(a,b):\n    for i in b:\n        pass\n    else:\n        MARK\n    return a",
 'after':"def f(a,b):\n    while a:\n        a-=1\n    MARK\n    return a",
}
class Sub(ast.NodeTransformer):
    def __init__(s,n): s.n=n
    def visit_Expr(s,node):
        if isinstance(node.value,ast.Name) and node.value.id=='MARK': return s.n
        return node
res=collections.Counter()
for c in uns:
    for sk,src in skeletons.items():
        tree=Sub(node_for(c)).visit(ast.parse(src)); ast.fix_missing_locations(tree)
        try:
            AST2SCFGTransformer(tree.body).transform_to_SCFG(); r='ACCEPTED'
        except NotImplementedError: r='NIE'
        except Exception as e: r=type(e).__name__
        res[(c.__name__,r)]+=1
for k,v in sorted(res.items()): print(k,v)
print([c.__name__ for c in uns])
