import sys, random, traceback, collections
sys.path.insert(0,'/tmp/probe')
from gen import *; from oracle import *
rng=random.Random(int(sys.argv[1]) if len(sys.argv)>1 else 1)
for n in (5,8,12,16):
    c=collections.Counter(); ex={}
    for t in range(1500):
        succ=rand_cfg(rng,n)
        orig={str(k):tuple(str(x) for x in v) for k,v in succ.items()}
        for stage in ('join','loop','branch'):
            s=mk(succ)
            try:
                s.join_returns()
                if stage in('loop','branch'): s.restructure_loop()
                if stage=='branch': s.restructure_branch()
            except Exception as e:
                c[(stage,'EXC')]+=1; continue
            for nm,chk in (('flat',check_flat),('region',check_region)):
                try:
                    chk(orig,s,set(orig)); c[(stage,nm,'ok')]+=1
                except Viol as e:
                    import re
                    k=(stage,nm,re.sub(r"[0-9]+","N",str(e))[:60]); c[k]+=1; ex.setdefault(k,succ)
    print(n); 
    for k,v in sorted(c.items(),key=str): print('   ',k,v)
    for k,v in ex.items(): print('   EX',k,v)
