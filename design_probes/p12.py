import sys, itertools, time
sys.path.insert(0,'/tmp/probe')
from gen import *; from oracle import *
def enum(n):
    nodes=list(range(1,n))
    ch=[()]+[(a,) for a in nodes]+[(a,b) for a in nodes for b in nodes if a!=b]
    for combo in itertools.product(ch,repeat=n):
        succ=dict(enumerate(combo))
        if closed(succ,n): yield succ
for n in (2,3,4,5):
    t=time.time(); k=0; tot=0
    for succ in enum(n):
        k+=1
        if n<5 or k%20==0:
            tot+=1
            s=mk(succ); s.restructure()
            orig={str(a):tuple(str(x) for x in v) for a,v in succ.items()}
            check_flat(orig,s,set(orig)); check_region(orig,s,set(orig))
    print(n,k,tot,round(time.time()-t,1))
