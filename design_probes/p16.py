import sys, logging
sys.path.insert(0,'/tmp/probe')
from gen import *
from numba_scfg.rendering.rendering import SCFGRenderer, ByteFlowRenderer
from numba_scfg.core.datastructures.byte_flow import ByteFlow
logging.disable(logging.CRITICAL)
s=mk({0: (1, 3), 1: (3, 2), 2: (2, 3), 3: ()}); s.restructure()
print(SCFGRenderer(s).render_scfg().source)
def f(x):
    for i in range(x):
        if i: x+=1
    return x
bf=ByteFlow.from_bytecode(f); bf.scfg.restructure()
print(ByteFlowRenderer().render_byteflow(bf).source[:1500])
