import sys, itertools, time
sys.path.insert(0,'/tmp/probe')
from gen import *; from oracle import *
from p15_defs import hier, conserve, ctrl
from p11_defs import structured
def enum(n):
    nodes=list(range(1,n))
    ch=[()]+[(a,) for a in nodes]+[(a,b) for a in nodes for b in nodes if a!=b]
    for combo in itertools.product(ch,repeat=n):
        succ=dict(enumerate(combo))
        if closed(succ,n): yield succ
shard=int(sys.argv[1]); nsh=int(sys.argv[2]); bad=0; tot=0
for n in (2,3,4,5):
    for k,succ in enumerate(enum(n)):
        if k%nsh!=shard: continue
        tot+=1
        orig={str(a):tuple(str(x) for x in v) for a,v in succ.items()}
        try:
            s=mk(succ); s.restructure()
            check_flat(orig,s,set(orig)); check_region(orig,s,set(orig)); hier(s); conserve(orig,s); ctrl(orig,s); structured(s)
        except Exception as e:
            bad+=1
            if bad<3: print('FAIL',succ,type(e).__name__,e)
print(shard,tot,bad)
