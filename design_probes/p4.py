import sys, traceback, ast, textwrap
from numba_scfg import AST2SCFG, SCFG2AST
from numba_scfg.core.datastructures.ast_transforms import AST2SCFGTransformer
def rt(src, args_list):
    src=textwrap.dedent(src)
    ns={}; exec(src,ns); f=ns['f']
    try:
        scfg=AST2SCFG(src); scfg.restructure(); t=SCFG2AST(src,scfg)
        out=ast.unparse(ast.fix_missing_locations(ast.Module([t],[])))
        ns2={}; exec(out,ns2); g=ns2['transformed_f']
    except Exception as e:
        print('PIPE-EXC', type(e).__name__, e, traceback.extract_tb(e.__traceback__)[-1][:3]); return
    for a in args_list:
        def run(h):
            try: return ('ret',h(*a))
            except Exception as e: return ('exc',type(e).__name__)
        r1,r2=run(f),run(g)
        print(a, r1, r2, 'OK' if r1==r2 else 'MISMATCH')
    if '-v' in sys.argv: print(out)
rt('''
def f(x):
    if not x:
        return 1
    return 2
''',[(0,),(1,)])
rt('''
def f(x):
    if x.real:
        return 1
    return 2
''',[(0,),(1,)])
rt('''
def f(x):
    if x[0]:
        return 1
    return 2
''',[([0],),([1],)])
rt('''
def f(x):
    if bool(x):
        return 1
    return 2
''',[(0,),(1,)])
rt('''
def f(x):
    for i in x:
        pass
    return i
''',[([],),([1],)])
rt('''
def f(x):
    i = 7
    for i in x:
        pass
    return i
''',[([],),([1],)])
rt('''
def f(x, y):
    if x:
        if y:
            while x < 5:
                x += 1
    return x
''',[(0,0),(1,0),(1,1)])
rt('''
def f(x, y):
    def g(): return 1
    return x
''',[(0,0)])
rt('''
def f(x, y):
    return (x and y) or (y and 3)
''',[(0,0),(1,0),(1,1),(0,1)])
rt('''
def f(x, y):
    while x:
        x -= 1
        if y: break
    else:
        return 9
    return x
''',[(0,0),(1,0),(1,1),(3,1)])
