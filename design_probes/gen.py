import random, sys, traceback, collections
from numba_scfg.core.datastructures.scfg import SCFG
from numba_scfg.core.datastructures.basic_block import BasicBlock

def closed(succ, n):
    # entry 0 only block without preds; all reachable from 0; all reach an exit
    preds = {i:set() for i in range(n)}
    for i,ss in succ.items():
        for s in ss: preds[s].add(i)
    if preds[0]: return False
    if any(not preds[i] for i in range(1,n)): return False
    seen={0}; st=[0]
    while st:
        x=st.pop()
        for s in succ[x]:
            if s not in seen: seen.add(s); st.append(s)
    if len(seen)!=n: return False
    exits=[i for i in range(n) if not succ[i]]
    if not exits: return False
    rs=set(exits); st=list(exits)
    while st:
        x=st.pop()
        for p in preds[x]:
            if p not in rs: rs.add(p); st.append(p)
    return len(rs)==n

def rand_cfg(rng, n):
    while True:
        succ={}
        for i in range(n):
            k=rng.choice([0,1,1,2,2])
            cand=[j for j in range(1,n)]
            if i==0 and k==0: k=1
            ss=rng.sample(cand, min(k,len(cand)))
            succ[i]=tuple(ss)
        if closed(succ,n): return succ

def mk(succ):
    g={}
    for i,ss in succ.items():
        g[str(i)]=BasicBlock(name=str(i), _jump_targets=tuple(str(s) for s in ss))
    return SCFG(g)
