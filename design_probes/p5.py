import sys, traceback, ast, textwrap
from numba_scfg import AST2SCFG, SCFG2AST
from numba_scfg.core.datastructures.ast_transforms import AST2SCFGTransformer
src=textwrap.dedent(sys.argv[1])
t=AST2SCFGTransformer(src)
cfg=t.transform_to_ASTCFG()
for k,v in cfg.to_dict().items(): print(k,v)
s=cfg.to_SCFG()
try:
    s.restructure()
except Exception: traceback.print_exc(limit=-3)
