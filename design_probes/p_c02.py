import sys, random, traceback, collections
sys.path.insert(0,'/tmp/probe')
from gen import *
rng=random.Random(1)
for n in (5,7,9,12,18):
    c=collections.Counter(); ex={}
    N=2000 if n<18 else 500
    for t in range(N):
        succ=rand_cfg(rng,n)
        s=mk(succ)
        try:
            s.restructure()
            c['ok']+=1
        except Exception as e:
            tb=traceback.extract_tb(e.__traceback__)[-1]
            key=(type(e).__name__, tb.filename.split('/')[-1], tb.lineno)
            c[key]+=1
            ex.setdefault(key, succ)
    print(n, dict(c))
    for k,v in ex.items(): print('   ',k,v)
