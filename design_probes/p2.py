import sys, traceback
sys.path.insert(0,'/tmp/probe')
from gen import *; from oracle import *
succ=eval(sys.argv[1])
s=mk(succ)
def dump(s,ind=0):
    for k,b in s.graph.items():
        print(' '*ind, k, type(b).__name__, b._jump_targets, b.backedges, getattr(b,'branch_value_table',''), getattr(b,'variable_assignment',''), 'H=',getattr(b,'header',''), 'X=',getattr(b,'exiting',''), 'P=', getattr(getattr(b,'parent_region',None),'name',''))
        if hasattr(b,'subregion') and b.subregion: dump(b.subregion, ind+4)
try:
    s.join_returns(); s.restructure_loop(); print("loop ok"); dump(s)
    s.restructure_branch()
except Exception as e:
    traceback.print_exc()
dump(s)
orig={str(k):tuple(str(x) for x in v) for k,v in succ.items()}
for chk in (check_flat,check_region):
    try: print(chk(orig,s,set(orig)))
    except Viol as e: print("VIOL",e)
