import sys, traceback
sys.path.insert(0,'/tmp/probe')
from gen import *
from numba_scfg.core.datastructures.scfg import SCFG
from numba_scfg.core.datastructures.byte_flow import ByteFlow
from numba_scfg import AST2SCFG, SCFG2AST
succ={0: (2,1), 1: (3,), 2: (2, 3), 3: ()}
for stage in range(4):
    s=mk(succ)
    if stage>=1: s.join_returns()
    if stage>=2: s.restructure_loop()
    if stage>=3: s.restructure_branch()
    try:
        d=s.to_dict(); print(stage,'to_dict ok'); 
        s2,_=SCFG.from_dict(d); print(' from_dict ok', s2.to_dict()==d, d['edges'])
        y=s.to_yaml(); s3,_=SCFG.from_yaml(y); print(' yaml ok', s3.to_dict()==d)
    except Exception as e:
        traceback.print_exc(limit=-2)
def f(x):
    for i in range(x):
        if i: x+=1
    return x
bf=ByteFlow.from_bytecode(f)
for stage in range(2):
    if stage: bf.scfg.restructure()
    try:
        d=bf.scfg.to_dict(); s2,_=SCFG.from_dict(d); print('bc ok', s2.to_dict()==d)
    except Exception as e: traceback.print_exc(limit=-2)
s=AST2SCFG(f)
try: d=s.to_dict()
except Exception as e: traceback.print_exc(limit=-2)
