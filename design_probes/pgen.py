import random, ast, textwrap
class G:
    def __init__(self, rng, feats):
        self.r=rng; self.f=feats; self.n=0; self.vars=['a','b','x','y']
    def tag(self):
        self.n+=1; return self.n
    def atom(self):
        r=self.r.random()
        if r<0.35: return self.r.choice(self.vars)
        if r<0.5: return str(self.r.choice([0,1,2,3]))
        return f"d({self.tag()})"
    def expr(self, depth=0, test=False):
        r=self.r.random()
        if depth>2 or r<0.35: return self.atom()
        k=self.r.choice(self.f['exprs'])
        if k=='bool':
            n=self.r.choice([2,2,3]); op=self.r.choice(['and','or'])
            return '('+f' {op} '.join(self.expr(depth+1) for _ in range(n))+')'
        if k=='cmp': return f"({self.expr(depth+1)} {self.r.choice(['<','==','!=','>='])} {self.expr(depth+1)})"
        if k=='chaincmp': return f"({self.expr(depth+1)} < {self.expr(depth+1)} <= {self.expr(depth+1)})"
        if k=='bin': return f"({self.expr(depth+1)} {self.r.choice(['+','-','*'])} {self.expr(depth+1)})"
        if k=='not': return f"(not {self.expr(depth+1)})"
        if k=='call': return f"e({self.tag()}, {self.expr(depth+1)})"
        if k=='ifexp': return f"({self.expr(depth+1)} if {self.expr(depth+1)} else {self.expr(depth+1)})"
        if k=='sub': return f"[{self.expr(depth+1)}][0]"
        if k=='attr': return f"box({self.expr(depth+1)}).v"
        return self.atom()
    def block(self, depth, inloop):
        n=self.r.choice([1,1,2,3])
        out=[]
        for _ in range(n):
            out+=self.stmt(depth,inloop)
            if out[-1].strip().split()[0] in ('return','break','continue') and self.r.random()<0.8: break
        return out
    def stmt(self, depth, inloop):
        ks=['assign','aug','expr','return','pass']
        if depth<3: ks+=['if','if','while','for','ifelse']
        if inloop: ks+=['break','continue']
        k=self.r.choice(ks)
        ind=lambda ls:['    '+l for l in ls]
        if k=='assign': return [f"{self.r.choice(self.vars)} = {self.expr()}"]
        if k=='aug': return [f"{self.r.choice(self.vars)} += {self.expr()}"]
        if k=='expr': return [f"e({self.tag()}, {self.expr()})"]
        if k=='return': return [f"return {self.expr()}"] if self.r.random()<0.8 else ["return"]
        if k=='pass': return ['pass']
        if k=='break': return ['break']
        if k=='continue': return ['continue']
        if k=='if': return [f"if {self.expr(test=True)}:"]+ind(self.block(depth+1,inloop))
        if k=='ifelse':
            o=[f"if {self.expr(test=True)}:"]+ind(self.block(depth+1,inloop))
            if self.r.random()<0.4: o+=[f"elif {self.expr(test=True)}:"]+ind(self.block(depth+1,inloop))
            return o+["else:"]+ind(self.block(depth+1,inloop))
        if k=='while':
            o=[f"while {self.expr(test=True)}:"]+ind(self.block(depth+1,True))
            if self.r.random()<0.3: o+=["else:"]+ind(self.block(depth+1,inloop))
            return o
        if k=='for':
            o=[f"for {self.r.choice(self.vars)} in it({self.tag()}):"]+ind(self.block(depth+1,True))
            if self.r.random()<0.3: o+=["else:"]+ind(self.block(depth+1,inloop))
            return o
    def func(self):
        body=self.block(0,False)
        return "def f(a, b):\n"+"\n".join('    '+l for l in body)+"\n"

class Tape(Exception): pass
def make_env(tape, log):
    pos=[0]
    def bit():
        if pos[0]>=len(tape): raise Tape()
        v=tape[pos[0]]; pos[0]+=1; return v
    def d(t): log.append(('d',t)); return bit()
    def e(t,v): log.append(('e',t,repr(v))); return v
    def it(t):
        log.append(('it',t))
        n=0
        while True:
            log.append(('nx',t)); 
            if not bit(): return
            n+=1; yield n
    class box:
        def __init__(s,v): s.v=v
    return dict(d=d,e=e,it=it,box=box)
class Budget(BaseException): pass
def run(src, name, tape, a=1,b=0):
    import sys
    log=[]; env=make_env(tape,log); 
    exec(src,env)
    cnt=[0]
    def tr(frame,ev,arg):
        if ev=='line':
            cnt[0]+=1
            if cnt[0]>3000: raise Budget()
        return tr
    try:
        sys.settrace(tr)
        try: v=env[name](a,b)
        finally: sys.settrace(None)
        r=('ret',repr(v))
    except Budget: r=('budget',)
    except Tape: r=('tape',)
    except RecursionError: raise
    except Exception as ex:
        tn=type(ex).__name__
        if tn=='UnboundLocalError': tn='NameError'
        r=('exc',tn)
    return r,log
