import sys, random, collections, traceback, ast, itertools, re
sys.path.insert(0,'/tmp/probe')
from gen import *
from pgen import make_env, Tape, Budget
from numba_scfg.core.datastructures.basic_block import *
from numba_scfg.core.datastructures.scfg import SCFG
from numba_scfg.core.datastructures.ast_transforms import SCFG2ASTTransformer
from oracle import flatten

def payload_graph(succ):
    g={}; stmts={}
    for i,ss in succ.items():
        tree=[ast.parse(f"e({i}, 0)").body[0]]
        if len(ss)==2: tree.append(ast.parse(f"d({i})",mode='eval').body)
        if len(ss)==0: tree.append(ast.parse(f"return {i}").body[0])
        g[str(i)]=PythonASTBlock(name=str(i),_jump_targets=tuple(str(s) for s in ss),tree=tree)
    return SCFG(g)
def run_graph(succ,tape):
    log=[]; env=make_env(tape,log); cur=0
    try:
        for _ in range(400):
            env['e'](cur,0)
            ss=succ[cur]
            if not ss: return ('ret',repr(cur)),log
            if len(ss)==2: cur=ss[0] if env['d'](cur) else ss[1]
            else: cur=ss[0]
        return ('budget',),log
    except Tape: return ('tape',),log
def run_fn(src,tape):
    log=[]; env=make_env(tape,log); exec(src,env)
    cnt=[0]
    def tr(frame,ev,arg):
        if ev=='line':
            cnt[0]+=1
            if cnt[0]>6000: raise Budget()
        return tr
    try:
        sys.settrace(tr)
        try: v=env['transformed_f']()
        finally: sys.settrace(None)
        return ('ret',repr(v)),log
    except Tape: return ('tape',),log
    except Budget: return ('budget',),log
    except Exception as ex: return ('exc',type(ex).__name__),log
orig_fd=ast.parse("def f(): pass").body[0]
rng=random.Random(int(sys.argv[1])); c=collections.Counter(); ex={}
for t in range(int(sys.argv[2])):
    n=rng.choice([3,4,5,6,8,10]); succ=rand_cfg(rng,n); s=payload_graph(succ)
    try:
        s.restructure()
    except Exception as e_: c['restructure-exc']+=1; continue
    try:
        fd=SCFG2ASTTransformer().transform(original=orig_fd,scfg=s)
        src=ast.unparse(ast.fix_missing_locations(ast.Module([fd],[])))
        compile(src,'<o>','exec')
    except Exception as e_:
        tb=traceback.extract_tb(e_.__traceback__)[-1]
        k=('codegen',type(e_).__name__,tb.filename.split('/')[-1],tb.lineno); c[k]+=1
        if k not in ex or len(succ)<len(ex[k]): ex[k]=succ
        continue
    # census
    blocks,regions=flatten(s)
    want=collections.Counter((v,val) for b in blocks.values() if isinstance(b,SyntheticAssignment) for v,val in b.variable_assignment.items())
    got=collections.Counter()
    for node in ast.walk(fd):
        if isinstance(node,ast.Assign) and isinstance(node.value,ast.Constant) and isinstance(node.targets[0],ast.Name) and node.targets[0].id.startswith('__scfg_') and 'loop_cont' not in node.targets[0].id and 'return_value' not in node.targets[0].id:
            got[(node.targets[0].id,node.value.value)]+=1
    ids=collections.Counter(id(x) for x in ast.walk(fd))
    bad=None
    if want!=got: bad='assign-census'
    for b in blocks.values():
        if isinstance(b,PythonASTBlock):
            for st_ in b.tree:
                if isinstance(st_,ast.Return):
                    if ids[id(st_)]+ids[id(st_.value)]!=1 and ids[id(st_.value)]!=1: bad='return-census'
                elif ids[id(st_)]!=1: bad=f'stmt-census x{ids[id(st_)]}'
    if bad:
        c[bad]+=1
        if bad not in ex or len(succ)<len(ex[bad]): ex[bad]=succ
        continue
    # behaviour
    mism=None
    for L in range(0,7):
        for tape in itertools.product([0,1],repeat=L):
            r1=run_graph(succ,tape); r2=run_fn(src,tape)
            if 'budget' in (r1[0][0],r2[0][0]): continue
            if r1!=r2: mism=(tape,r1,r2); break
        if mism: break
    if mism:
        c['behaviour']+=1
        if 'behaviour' not in ex or len(succ)<len(ex['behaviour'][0]): ex['behaviour']=(succ,mism,src)
    else: c['ok']+=1
print(c)
for k,v in ex.items(): print('----',k); print(v if not isinstance(v,tuple) else '\n'.join(map(str,v)))
