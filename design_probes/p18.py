import sys, random, itertools, collections, traceback, ast, re, copy
sys.path.insert(0,'/tmp/probe')
from pgen import *
from numba_scfg.core.datastructures.ast_transforms import AST2SCFGTransformer

def compile_cfg(cfgdict, args='a, b', entry='0'):
    """cfgdict: name -> (list of ast nodes, [targets]). Build source of state machine."""
    lines=[f"def m({args}):", f"    __pc = {entry!r}", "    while True:"]
    first=True
    for name,(instrs,targets) in cfgdict.items():
        lines.append(f"        {'if' if first else 'elif'} __pc == {name!r}:"); first=False
        body=[]
        ins=[i for i in instrs if not isinstance(i,(ast.Pass,ast.Break,ast.Continue))]
        test=None
        if len(targets)==2:
            test=ins[-1]; ins=ins[:-1]
            if isinstance(test,ast.Expr): test=test.value
        for i in ins:
            if isinstance(i,ast.expr): i=ast.Expr(i)
            body.append(ast.unparse(ast.fix_missing_locations(i)))
        if len(targets)==2:
            body.append(f"__pc = {targets[0]!r} if ({ast.unparse(test)}) else {targets[1]!r}")
        elif len(targets)==1:
            body.append(f"__pc = {targets[0]!r}")
        else:
            body.append("raise RuntimeError('fell off exit block')")
        lines += ['            '+l for b in body for l in b.split('\n')]
    lines.append("        else: raise RuntimeError('bad pc '+repr(__pc))")
    return '\n'.join(lines)+'\n'

feats={'exprs':sys.argv[2].split(',')}
rng=random.Random(int(sys.argv[1]))
c=collections.Counter(); ex={}
N=int(sys.argv[3]) if len(sys.argv)>3 else 500
prune = '--noprune' not in sys.argv
for t in range(N):
    src=G(rng,feats).func()
    try:
        tr=AST2SCFGTransformer(src, prune=prune); cfg=tr.transform_to_ASTCFG()
        d={k:(v.instructions,list(v.jump_targets)) for k,v in cfg.items()}
        entry='0' if '0' in d else next(iter(d))
        msrc=compile_cfg(d,entry=entry)
        compile(msrc,'<m>','exec')
    except NotImplementedError: c['refuse']+=1; continue
    except Exception as e_:
        tb=traceback.extract_tb(e_.__traceback__)[-1]
        k=('internal',type(e_).__name__,tb.filename.split('/')[-1],tb.lineno); c[k]+=1
        if k not in ex or len(src)<len(ex[k]): ex[k]=src
        continue
    bad=None
    for L in range(0,7):
        for tape in itertools.product([0,1],repeat=L):
            r1=run(src,'f',tape); r2=run(msrc,'m',tape)
            if r1[0]==('budget',) or r2[0]==('budget',): c['budget']+=1; continue
            if r1!=r2: bad=(tape,r1,r2); break
        if bad: break
    if bad:
        k=('mismatch',bad[1][0][0],bad[2][0][0]); c[k]+=1
        if k not in ex or len(src)<len(ex[k][0]): ex[k]=(src,bad,msrc)
    else: c['ok']+=1
for k,v in sorted(c.items(),key=str): print(k,v)
for k,v in ex.items():
    print('----',k)
    if isinstance(v,tuple): print(v[0]); print(v[1]); 
    else: print(v)
