import sys, random, hashlib
sys.path.insert(0,'/tmp/probe')
from gen import *
from numba_scfg.core.datastructures.basic_block import RegionBlock
def dump(s,out):
    for k,b in s.graph.items():
        out.append(repr((k,type(b).__name__,b._jump_targets,b.backedges,list(getattr(b,'branch_value_table',{}).items()),list(getattr(b,'variable_assignment',{}).items()),getattr(b,'variable',None),getattr(b,'kind',None),getattr(b,'header',None),getattr(b,'exiting',None))))
        if isinstance(b,RegionBlock): out.append('{'); dump(b.subregion,out); out.append('}')
rng=random.Random(7); h=hashlib.sha256(); ok=0
for t in range(400):
    n=rng.choice([5,8,12,16]); succ=rand_cfg(rng,n); s=mk(succ)
    try: s.restructure(); ok+=1
    except Exception: continue
    out=[]; dump(s,out); out.append(repr(list(s.name_gen.kinds.items()))); h.update('\n'.join(out).encode())
print(ok,h.hexdigest()[:16])
