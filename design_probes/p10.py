import sys, random, collections, traceback, logging
sys.path.insert(0,'/tmp/probe')
from gen import *; from oracle import flatten
from numba_scfg.core.datastructures.basic_block import RegionBlock
from numba_scfg.rendering.rendering import SCFGRenderer
logging.disable(logging.CRITICAL)
rng=random.Random(5); c=collections.Counter(); ex={}
def note(k,g): c[k]+=1; ex.setdefault(k,g)
for t in range(1500):
    n=rng.choice([4,6,8,11]); succ=rand_cfg(rng,n); s=mk(succ)
    try: s.restructure()
    except Exception: c['restructure-exc']+=1; continue
    blocks,regions=flatten(s)
    allnames=set(blocks)|set(regions)
    try:
        it=[k for k,_ in s]
        if sorted(it)!=sorted(allnames): note('iter-set-mismatch' if set(it)!=allnames else 'iter-dup',succ)
        elif it[0]!=s.find_head(): note('iter-head',succ)
        else: c['iter-ok']+=1
    except Exception as e: note(('iter-exc',type(e).__name__),succ)
    def chk_view(g,path):
        try:
            v=list(g.concealed_region_view)
            if sorted(v)!=sorted(g.graph): note('view-mismatch',(succ,path,v,list(g.graph))); return
            c['view-ok']+=1
        except Exception as e: note(('view-exc',type(e).__name__),succ)
        for k,b in g.graph.items():
            if isinstance(b,RegionBlock): chk_view(b.subregion,path+[k])
    chk_view(s,[])
    try:
        src=SCFGRenderer(s).render_scfg().source; c['render-ok']+=1
    except Exception as e: note(('render-exc',type(e).__name__,traceback.extract_tb(e.__traceback__)[-1][1:3]),succ)
print(c)
for k,v in ex.items(): print(k,str(v)[:300])
if '-s' in sys.argv: print(src)
