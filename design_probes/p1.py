import sys, traceback
sys.path.insert(0,'/tmp/probe')
from gen import *
succ={0: (3, 1), 1: (2,), 2: (), 3: (4, 1), 4: (2, 3)}
s=mk(succ)
try:
    s.join_returns(); s.restructure_loop(); print("loop ok")
    s.restructure_branch()
except Exception as e:
    traceback.print_exc()
def dump(s,ind=0):
    for k,b in s.graph.items():
        print(' '*ind, k, type(b).__name__, b._jump_targets, b.backedges, getattr(b,'branch_value_table',''), getattr(b,'variable_assignment',''), getattr(b,'header',''), getattr(b,'exiting',''))
        if hasattr(b,'subregion') and b.subregion: dump(b.subregion, ind+4)
dump(s)
