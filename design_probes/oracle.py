import sys
from numba_scfg.core.datastructures.basic_block import *
from numba_scfg.core.datastructures.scfg import SCFG

class Viol(Exception): pass

def flatten(scfg):
    blocks={}; regions={}
    def rec(s):
        for k,b in s.graph.items():
            if k!=b.name: raise Viol(f"key {k} != name {b.name}")
            if isinstance(b,RegionBlock):
                if k in regions or k in blocks: raise Viol(f"dup name {k}")
                regions[k]=b; rec(b.subregion)
            else:
                if k in regions or k in blocks: raise Viol(f"dup name {k}")
                blocks[k]=b
    rec(scfg)
    return blocks, regions

def resolve(name, blocks, regions):
    seen=set()
    while name in regions:
        if name in seen: raise Viol("header cycle")
        seen.add(name)
        name=regions[name].header
    if name not in blocks: raise Viol(f"dangling name {name}")
    return name

def step_synth(b, val):
    """returns (next target name or None, new val)"""
    if isinstance(b,SyntheticAssignment):
        val=dict(val); val.update(b.variable_assignment)
    if isinstance(b,SyntheticBranch):
        if b.variable not in val: raise Viol(f"unset var {b.variable} at {b.name}")
        v=val[b.variable]
        if v not in b.branch_value_table: raise Viol(f"value {v} not in table of {b.name} {b.branch_value_table}")
        t=b.branch_value_table[v]
        if t not in b._jump_targets: raise Viol(f"table target {t} not in jts of {b.name}")
        return t,val
    jts=b._jump_targets
    if len(jts)==0: return None,val
    if len(jts)!=1: raise Viol(f"non-branch synthetic {b.name} has {len(jts)} targets")
    return jts[0],val

def check_flat(orig, scfg, origset):
    """orig: dict name-> tuple succ names (closed original, before join_returns). scfg: restructured."""
    blocks,regions=flatten(scfg)
    for o in orig:
        if o not in blocks: raise Viol(f"orig block {o} missing")
    head=[o for o in orig if not any(o in s for s in orig.values())]
    assert len(head)==1
    # entry of restructured: follow from find_head
    start=resolve(scfg.find_head(),blocks,regions)
    def run_to_orig(name,val):
        seen=set()
        while True:
            if name is None: return None,val
            name=resolve(name,blocks,regions)
            if name in origset: return name,val
            key=(name,tuple(sorted(val.items())))
            if key in seen: raise Viol("synthetic cycle")
            seen.add(key)
            name,val=step_synth(blocks[name],val)
    first,val=run_to_orig(start,{})
    if first!=head[0]: raise Viol(f"entry {first}!={head[0]}")
    todo=[(first,tuple(sorted(val.items())))]; seen=set(todo); n=0
    while todo:
        o,vt=todo.pop(); n+=1
        b=blocks[o]; val=dict(vt)
        osucc=orig[o]
        if len(osucc)==0:
            # must stop: follow successors (synthetic only) to end
            jts=b._jump_targets
            if len(jts)>1: raise Viol(f"exit block {o} gained {len(jts)} targets")
            if jts:
                nxt,_=run_to_orig(jts[0],val)
                if nxt is not None: raise Viol(f"exit block {o} continues to {nxt}")
            continue
        if len(b._jump_targets)!=len(osucc): raise Viol(f"arity changed {o}")
        for i,t in enumerate(b._jump_targets):
            nxt,nval=run_to_orig(t,val)
            if nxt!=osucc[i]: raise Viol(f"{o}[{i}] -> {nxt} expected {osucc[i]}")
            key=(nxt,tuple(sorted(nval.items())))
            if key not in seen: seen.add(key); todo.append(key)
    return n

def inner_backedges(r):
    b=r.subregion.graph.get(r.exiting)
    while isinstance(b,RegionBlock): b=b.subregion.graph.get(b.exiting)
    return b.backedges if b is not None else ()
def check_region(orig, scfg, origset):
    head=[o for o in orig if not any(o in s for s in orig.values())][0]
    top=scfg
    def graph_of(stack): return stack[-1].subregion if stack else top
    def go(stack, last, name, val):
        """we are in graph_of(stack), leaving node `last` toward `name`."""
        stack=list(stack); seen=set()
        while True:
            if name is None: return None
            g=graph_of(stack)
            while name not in g.graph:
                if not stack: raise Viol(f"region walk: name {name} not found at top")
                r=stack.pop()
                if last != r.exiting: raise Viol(f"region {r.name} left from {last} not exiting {r.exiting}")
                if name not in r._jump_targets and name not in inner_backedges(r): raise Viol(f"region {r.name} left to {name} not in its targets {r._jump_targets}")
                last=r.name
                g=graph_of(stack)
            b=g.graph[name]
            if isinstance(b,RegionBlock):
                stack.append(b)
                if b.header not in b.subregion.graph: raise Viol(f"region {b.name} header {b.header} not inside")
                name=b.header; last=None; continue
            if name in origset: return (tuple(stack),name,val)
            key=(tuple(r.name for r in stack),name,tuple(sorted(val.items())))
            if key in seen: raise Viol("synthetic cycle")
            seen.add(key)
            nxt,val=step_synth(b,val)
            if nxt is None:
                return None
            last=name; name=nxt
    st=go((), None, scfg.find_head(), {})
    if st is None or st[1]!=head: raise Viol("region walk entry mismatch")
    def key(st): return (tuple(r.name for r in st[0]), st[1], tuple(sorted(st[2].items())))
    todo=[st]; seen={key(st)}; n=0
    while todo:
        stack,o,val=todo.pop(); n+=1
        g=graph_of(list(stack)); b=g.graph[o]; osucc=orig[o]
        if not osucc:
            jts=b._jump_targets
            if jts:
                r=go(stack,o,jts[0],val)
                if r is not None: raise Viol(f"region walk: exit {o} continues")
            continue
        for i,t in enumerate(b._jump_targets):
            r=go(stack,o,t,val)
            if r is None or r[1]!=osucc[i]: raise Viol(f"region walk {o}[{i}] -> {r and r[1]} expected {osucc[i]}")
            k=key(r)
            if k not in seen: seen.add(k); todo.append(r)
    return n
