import sys, random, collections, traceback, re
sys.path.insert(0,'/tmp/probe')
from gen import *; from oracle import *
from numba_scfg.core.datastructures.basic_block import *

def hier(scfg, strict_parent=True):
    blocks,regions=flatten(scfg)
    def rec(g, owner, enclosing):
        names=set(g.graph)
        if owner is not None and g.region.name != owner.name: raise Viol(f"subregion.region of {owner.name} is {g.region.name}")
        for k,b in g.graph.items():
            for t in b._jump_targets+b.backedges:
                if t not in names and not any(t in e for e in enclosing): raise Viol(f"{k} target {t} not in same/enclosing graph")
            if isinstance(b,RegionBlock):
                sub=b.subregion
                if b.header not in sub.graph: raise Viol(f"region {k} header {b.header} not inside")
                if b.exiting not in sub.graph: raise Viol(f"region {k} exiting {b.exiting} not inside")
                exp_parent = owner if owner is not None else g.region
                if b.parent_region is None or b.parent_region.name != exp_parent.name: raise Viol(f"region {k} parent {getattr(b.parent_region,'name',None)} expected {exp_parent.name}")
                # region targets == exiting targets
                ex=sub.graph[b.exiting]
                if tuple(ex.jump_targets)!=tuple(b.jump_targets): raise Viol(f"region {k} targets {b.jump_targets} != exiting {ex.name} targets {ex.jump_targets}")
                # only exiting leaves; only header entered
                for k2,b2 in sub.graph.items():
                    outs=[t for t in b2._jump_targets if t not in sub.graph]
                    if outs and k2!=b.exiting: raise Viol(f"region {k}: non-exiting {k2} leaves to {outs}")
                for k2,b2 in g.graph.items():
                    if k2==k: continue
                    for t in b2._jump_targets:
                        if t in sub.graph: raise Viol(f"{k2} jumps into region {k} interior {t}")
                rec(sub,b,[names]+enclosing)
    rec(scfg,None,[])

def conserve(orig, scfg):
    blocks,regions=flatten(scfg)
    allnames=set(blocks)|set(regions)
    for o,succ in orig.items():
        if o not in blocks: raise Viol(f"lost {o}")
        b=blocks[o]
        if type(b) is not BasicBlock: raise Viol("type changed")
        if len(succ)==0:
            if len(b._jump_targets)>1: raise Viol("exit gained >1")
            if b._jump_targets and b._jump_targets[0] in orig: raise Viol(f"exit {o} gained edge to original")
            continue
        if len(b._jump_targets)!=len(succ): raise Viol("arity")
        for old,new in zip(succ,b._jump_targets):
            if new!=old and new in orig: raise Viol(f"{o}: successor {old} renamed to original {new}")
            if new not in allnames: raise Viol("dangling")
    for k,b in blocks.items():
        if k not in orig and not isinstance(b,SyntheticBlock): raise Viol(f"added non synthetic {k}")

def ctrl(orig, scfg):
    blocks,regions=flatten(scfg)
    for k,b in blocks.items():
        if isinstance(b,SyntheticBranch):
            if set(b.branch_value_table.values())!=set(b._jump_targets): raise Viol(f"table/targets mismatch at {k}: {b.branch_value_table} {b._jump_targets}")
    # product with staleness
    origset=set(orig)
    start=resolve(scfg.find_head(),blocks,regions)
    def run(name,val,stale):
        seen=set(); stale=set(stale)
        while True:
            if name is None: return None,val,stale
            name=resolve(name,blocks,regions)
            if name in origset: return name,val,stale
            b=blocks[name]
            key=(name,tuple(sorted(val.items())),frozenset(stale))
            if key in seen: raise Viol("cycle")
            seen.add(key)
            if isinstance(b,SyntheticAssignment):
                for v in b.variable_assignment:
                    stale={s for s in stale if blocks[s].variable!=v}
            if isinstance(b,SyntheticBranch):
                if name in stale:
                    raise Viol(f"{type(b).__name__} {name} re-reads stale {b.variable}")
                stale.add(name)
            name,val=step_synth(b,val)
    f,val,stale=run(start,{},set())
    todo=[(f,tuple(sorted(val.items())),frozenset(stale))]; seen=set(todo)
    while todo:
        o,vt,st=todo.pop()
        for t in blocks[o]._jump_targets:
            n,v2,s2=run(t,dict(vt),st)
            if n is None: continue
            key=(n,tuple(sorted(v2.items())),frozenset(s2))
            if key not in seen: seen.add(key); todo.append(key)
    return len(seen)

