import sys, itertools, collections, traceback
from numba_scfg.core.datastructures.scfg import SCFG
from numba_scfg.core.datastructures.basic_block import BasicBlock
from numba_scfg.core.transformations import _doms,_post_doms,_imm_doms
c=collections.Counter(); ex={}
def note(k,g):
    c[k]+=1; ex.setdefault(k,g)
N=int(sys.argv[1])
names=[str(i) for i in range(N)]+['X']
tgt_choices=[()]+[(a,) for a in names]+[(a,b) for a in names for b in names]
cnt=0
for combo in itertools.product(tgt_choices, repeat=N):
    cnt+=1
    g={str(i):BasicBlock(str(i),_jump_targets=combo[i]) for i in range(N)}
    s=SCFG(g)
    adj={k:[t for t in b._jump_targets] for k,b in g.items()}
    # reach (>=1 edge), within graph nodes + external as sink
    def reach(a):
        seen=set(); st=list(adj[a])
        while st:
            x=st.pop()
            if x in seen: continue
            seen.add(x)
            if x in adj: st.extend(adj[x])
        return seen
    R={a:reach(a) for a in adj}
    # scc
    try:
        got=sorted(sorted(x) for x in s.compute_scc())
        exp={}
        for a in adj:
            comp=frozenset([a]+[b for b in adj if b in R[a] and a in R[b]])
            exp[comp]=1
        if got!=sorted(sorted(x) for x in exp): note('scc-mismatch',combo)
    except Exception as e: note(('scc-exc',type(e).__name__),combo)
    for a in adj:
        for b in names:
            try:
                if s.is_reachable_dfs(a,b)!=(b in R[a]): note('reach-mismatch',(combo,a,b))
            except Exception as e: note(('reach-exc',type(e).__name__),combo)
    heads=[a for a in adj if not any(a in adj[p] for p in adj)]
    try:
        h=s.find_head()
        if len(heads)!=1 or h!=heads[0]: note('head-mismatch',combo)
    except AssertionError:
        if len(heads)==1: note('head-assert-but-unique',combo)
    # dominators: only when >=1 entry
    if heads:
        try:
            d=_doms(s)
            # path-based: a dom b iff b unreachable from entries when a removed (or a==b)
            for b in adj:
                exp=set()
                for a in adj:
                    if a==b: exp.add(a); continue
                    seen=set(); st=[h for h in heads if h!=a]
                    while st:
                        x=st.pop()
                        if x in seen or x==a or x not in adj: continue
                        seen.add(x); st.extend(adj[x])
                    if b not in seen: exp.add(a)
                if d[b]!=exp: note('dom-mismatch',(combo,b,d[b],exp)); break
        except Exception as e: note(('dom-exc',type(e).__name__),combo)
print(cnt,c)
for k,v in ex.items(): print(k,v)
