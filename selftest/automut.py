#!/venv/bin/python
"""Systematic mutation analysis of the checks (not a manifest check).

    selftest/automut.py gen        enumerate single-point mutants of the library
    selftest/automut.py tests      run the repository's 82 tests on every mutant (16 workers); keep survivors
    selftest/automut.py checks     run the relevant quick checks (reduced: every 4th shard) on every survivor
    selftest/automut.py report     write selftest/AUTOMUT.md

A *survivor* compiles and passes the existing test suite.  A survivor that no
check catches is either semantically equivalent for every property or a gap.
All scratch copies live under /tmp/automut and are removed afterwards.
"""

from __future__ import annotations

import ast
import copy
import json
import multiprocessing as mp
import os
import shutil
import subprocess
import sys
import time
from pathlib import Path

VERIF = Path(__file__).resolve().parent.parent
OUT = VERIF / "selftest" / "automut"
SCR = Path("/tmp/automut")

FILES = {
    "numba_scfg/core/transformations.py": ["C02", "C01", "C04", "C13", "C03", "C06", "C16", "C05", "C10", "C12", "C17"],
    "numba_scfg/core/datastructures/scfg.py": ["C02", "C01", "C04", "C13", "C14", "C16", "C15", "C18", "C03", "C06", "C05", "C10", "C12", "C17"],
    "numba_scfg/core/datastructures/basic_block.py": ["C02", "C01", "C06", "C14", "C04", "C05", "C09", "C15", "C17"],
    "numba_scfg/networkx_vendored/scc.py": ["C13", "C02"],
    "numba_scfg/core/datastructures/ast_transforms.py": ["C08", "C07", "C10", "C11"],
    "numba_scfg/core/datastructures/flow_info.py": ["C09", "C17", "C12"],
    "numba_scfg/core/datastructures/byte_flow.py": ["C09", "C17"],
    "numba_scfg/core/utils.py": ["C09", "C17"],
    "numba_scfg/rendering/rendering.py": ["C17"],
}

CMP = {ast.Lt: ast.LtE, ast.LtE: ast.Lt, ast.Gt: ast.GtE, ast.GtE: ast.Gt, ast.Eq: ast.NotEq, ast.NotEq: ast.Eq, ast.In: ast.NotIn, ast.NotIn: ast.In, ast.Is: ast.IsNot, ast.IsNot: ast.Is}


def _skip(node, parents):
    for p in parents:
        if isinstance(p, ast.FunctionDef) and p.name in ("__repr__", "view", "render", "render_func", "render_flow", "render_scfg", "to_dict") and False:
            return True
        if isinstance(p, (ast.AnnAssign,)):
            return True
    return False


def mutants_of(src):
    """yields (description, mutated source)"""
    tree = ast.parse(src)
    nodes = []

    def walk(n, parents):
        nodes.append((n, parents))
        for ch in ast.iter_child_nodes(n):
            walk(ch, parents + [n])

    walk(tree, [])
    # docstrings are not mutated
    doc_ids = set()
    for n, _ in nodes:
        if isinstance(n, (ast.FunctionDef, ast.ClassDef, ast.Module)) and n.body and isinstance(n.body[0], ast.Expr) and isinstance(n.body[0].value, ast.Constant) and isinstance(n.body[0].value.value, str):
            doc_ids.add(id(n.body[0].value))
    ann_ids = set()
    for n, _ in nodes:
        for f in ("annotation", "returns"):
            a = getattr(n, f, None)
            if a is not None:
                ann_ids |= {id(x) for x in ast.walk(a)}

    def emit(idx, desc, mutate):
        t = copy.deepcopy(tree)
        flat = []

        def walk2(n):
            flat.append(n)
            for ch in ast.iter_child_nodes(n):
                walk2(ch)

        walk2(t)
        mutate(flat[idx], flat)
        try:
            out = ast.unparse(ast.fix_missing_locations(t))
            compile(out, "<mut>", "exec")
        except Exception:
            return None
        return desc, out

    for idx, (n, parents) in enumerate(nodes):
        if id(n) in doc_ids or id(n) in ann_ids:
            continue
        line = getattr(n, "lineno", 0)
        if isinstance(n, ast.Compare):
            for k, op in enumerate(n.ops):
                alt = CMP.get(type(op))
                if alt:
                    def m(node, flat, k=k, alt=alt):
                        node.ops[k] = alt()
                    r = emit(idx, f"L{line}: {type(op).__name__} -> {alt.__name__} in `{ast.unparse(n)[:60]}`", m)
                    if r:
                        yield r
        elif isinstance(n, ast.BoolOp):
            def m(node, flat):
                node.op = ast.Or() if isinstance(node.op, ast.And) else ast.And()
            r = emit(idx, f"L{line}: and<->or in `{ast.unparse(n)[:60]}`", m)
            if r:
                yield r
        elif isinstance(n, (ast.If, ast.While)) and not (isinstance(n.test, ast.Constant)):
            def m(node, flat):
                node.test = ast.UnaryOp(ast.Not(), node.test)
            r = emit(idx, f"L{line}: negate test `{ast.unparse(n.test)[:60]}`", m)
            if r:
                yield r
        elif isinstance(n, ast.IfExp):
            def m(node, flat):
                node.body, node.orelse = node.orelse, node.body
            r = emit(idx, f"L{line}: swap arms of `{ast.unparse(n)[:60]}`", m)
            if r:
                yield r
        elif isinstance(n, ast.Constant) and isinstance(n.value, bool):
            def m(node, flat):
                node.value = not node.value
            r = emit(idx, f"L{line}: {n.value} -> {not n.value}", m)
            if r:
                yield r
        elif isinstance(n, ast.Constant) and isinstance(n.value, int) and -2 <= n.value <= 4:
            for d in (1, -1):
                if n.value + d < -1:
                    continue
                def m(node, flat, d=d):
                    node.value = node.value + d
                r = emit(idx, f"L{line}: constant {n.value} -> {n.value + d}", m)
                if r:
                    yield r
        elif isinstance(n, ast.BinOp) and isinstance(n.op, (ast.Add, ast.Sub)) and not isinstance(n.left, ast.Constant):
            def m(node, flat):
                node.op = ast.Sub() if isinstance(node.op, ast.Add) else ast.Add()
            r = emit(idx, f"L{line}: +<->- in `{ast.unparse(n)[:60]}`", m)
            if r:
                yield r
        elif isinstance(n, ast.Call) and isinstance(n.func, ast.Name) and n.func.id == "sorted" and len(n.args) == 1 and not n.keywords:
            def m(node, flat):
                node.func = ast.Name("list", ast.Load())
            r = emit(idx, f"L{line}: sorted -> list in `{ast.unparse(n)[:60]}`", m)
            if r:
                yield r
        elif isinstance(n, (ast.Break, ast.Continue)):
            def m(node, flat):
                for x in flat:
                    for f in ("body", "orelse", "finalbody"):
                        s = getattr(x, f, None)
                        if isinstance(s, list) and node in s:
                            s[s.index(node)] = ast.Pass()
            r = emit(idx, f"L{line}: drop {type(n).__name__.lower()}", m)
            if r:
                yield r
        elif isinstance(n, ast.Expr) and isinstance(n.value, ast.Call) and id(n.value) not in doc_ids:
            txt = ast.unparse(n)[:70]
            if "_logger" in txt or "logging" in txt:
                continue
            def m(node, flat):
                for x in flat:
                    for f in ("body", "orelse", "finalbody"):
                        s = getattr(x, f, None)
                        if isinstance(s, list) and node in s:
                            s[s.index(node)] = ast.Pass()
            r = emit(idx, f"L{line}: drop statement `{txt}`", m)
            if r:
                yield r
        elif isinstance(n, ast.AugAssign):
            def m(node, flat):
                for x in flat:
                    for f in ("body", "orelse", "finalbody"):
                        s = getattr(x, f, None)
                        if isinstance(s, list) and node in s:
                            s[s.index(node)] = ast.Pass()
            r = emit(idx, f"L{line}: drop `{ast.unparse(n)[:60]}`", m)
            if r:
                yield r
        elif isinstance(n, ast.UnaryOp) and isinstance(n.op, ast.Not):
            def m(node, flat):
                for x in flat:
                    for f, v in ast.iter_fields(x):
                        if v is node:
                            setattr(x, f, node.operand)
                        elif isinstance(v, list) and node in v:
                            v[v.index(node)] = node.operand
            r = emit(idx, f"L{line}: drop not in `{ast.unparse(n)[:60]}`", m)
            if r:
                yield r


def cmd_gen():
    OUT.mkdir(parents=True, exist_ok=True)
    allm = []
    for f in FILES:
        src = Path("/repo", f).read_text()
        k = 0
        for desc, out in mutants_of(src):
            allm.append(dict(id=f"{Path(f).stem}-{k:04d}", file=f, desc=desc, src=out))
            k += 1
        print(f, k)
    (OUT / "mutants.json").write_text(json.dumps(allm))
    print(len(allm), "mutants")


def _scratch(w):
    d = SCR / f"w{w}"
    if not (d / "repo").exists():
        d.mkdir(parents=True, exist_ok=True)
        shutil.copytree("/repo", d / "repo", ignore=shutil.ignore_patterns(".git", "__pycache__", "*.egg-info", "docs"))
    return d / "repo"


def _test_one(args):
    m, = args
    w = mp.current_process()._identity[0] if mp.current_process()._identity else 0
    repo = _scratch(w)
    f = repo / m["file"]
    orig = Path("/repo", m["file"]).read_text()
    f.write_text(m["src"])
    try:
        p = subprocess.run(["/venv/bin/python", "-m", "pytest", "-q", "-x", "-p", "no:cacheprovider", "numba_scfg/tests"], cwd=repo, capture_output=True, text=True, timeout=180, env=dict(os.environ, PYTHONPATH=str(repo), PYTHONDONTWRITEBYTECODE="1"))
        ok = p.returncode == 0
    except subprocess.TimeoutExpired:
        ok = False
    finally:
        f.write_text(orig)
    return m["id"], ok


def cmd_tests():
    allm = json.loads((OUT / "mutants.json").read_text())
    t = time.time()
    with mp.get_context("fork").Pool(16) as pool:
        res = dict(pool.imap_unordered(_test_one, [(m,) for m in allm], chunksize=1))
    surv = [dict(id=m["id"], file=m["file"], desc=m["desc"]) for m in allm if res[m["id"]]]
    (OUT / "survivors.json").write_text(json.dumps(surv, indent=1))
    shutil.rmtree(SCR, ignore_errors=True)
    print(f"{len(allm)} mutants, {len(surv)} pass the test suite ({time.time() - t:.0f}s)")


def _check_one(args):
    m, = args
    w = mp.current_process()._identity[0] if mp.current_process()._identity else 0
    repo = _scratch(f"c{w}")
    f = repo / m["file"]
    orig = Path("/repo", m["file"]).read_text()
    f.write_text(m["src"])
    caught = None
    ran = []
    t = time.time()
    try:
        # phase 1: every 8th shard of every relevant check (seconds each); phase 2: every 2nd shard
        for stride in (os.environ.get("AUTOMUT_STRIDE1", "8"), os.environ.get("AUTOMUT_STRIDE2", "2")):
            for pid in FILES[m["file"]]:
                try:
                    p = subprocess.run(["/venv/bin/python", "-m", "vpbt", pid, "--tier", "quick", "--no-evidence", "--nproc", "4"], cwd=VERIF, capture_output=True, text=True, timeout=900, env=dict(os.environ, VERIF_REPO=str(repo), VPBT_SPEC_STRIDE=stride, VPBT_FOUND_DIR=str(SCR / f"found{w}")))
                except subprocess.TimeoutExpired:
                    ran.append((pid, "timeout"))
                    caught = (pid, "TIMEOUT: the check did not finish within 900 s (the unchanged tree needs seconds): the mutant hangs")
                    break
                ran.append((pid, p.returncode))
                if p.returncode == 1:
                    sig = next((l.replace("violation-detail: ", "").split(" :: ")[0] for l in p.stdout.splitlines() if l.startswith("violation-detail")), "")
                    caught = (pid, sig)
                    break
                if p.returncode == 2:
                    caught = (pid, "HARNESS-ERROR " + (p.stdout.strip().splitlines() or [""])[-1][:100])
                    break
            if caught:
                break
    finally:
        f.write_text(orig)
    return m["id"], dict(file=m["file"], desc=m["desc"], caught=caught, ran=ran, wall=round(time.time() - t))


def cmd_checks(only=None):
    allm = {m["id"]: m for m in json.loads((OUT / "mutants.json").read_text())}
    surv = json.loads((OUT / "survivors.json").read_text())
    resf = OUT / "results.json"
    results = json.loads(resf.read_text()) if resf.exists() else {}
    todo = [(allm[s["id"]],) for s in surv if s["id"] not in results and (not only or only in s["id"])]
    with mp.get_context("fork").Pool(int(os.environ.get("AUTOMUT_POOL", "4"))) as pool:
        for mid, r in pool.imap_unordered(_check_one, todo, chunksize=1):
            results[mid] = r
            resf.write_text(json.dumps(results, indent=1))
            print(mid, r["desc"][:70], "->", r["caught"], r["wall"], flush=True)
    shutil.rmtree(SCR, ignore_errors=True)


def cmd_report():
    results = json.loads((OUT / "results.json").read_text())
    total = len(json.loads((OUT / "mutants.json").read_text()))
    notes = {}
    nf = OUT / "notes.json"
    if nf.exists():
        notes = json.loads(nf.read_text())
    caught = {k: v for k, v in results.items() if v["caught"] and not str(v["caught"][1]).startswith("HARNESS")}
    missed = {k: v for k, v in results.items() if not v["caught"]}
    herr = {k: v for k, v in results.items() if v["caught"] and str(v["caught"][1]).startswith("HARNESS")}
    out = ["# Systematic mutation analysis", "", f"{total} single-point mutants of the library (comparison / boolean / constant / arithmetic operators, negated tests, dropped statements, sorted->list, dropped break/continue); {len(json.loads((OUT / 'survivors.json').read_text()))} of them pass the repository's 82 tests (survivors); {len(results)} of the survivors have been run through the checks so far (the rest was not reached in the time available).",
           f"Of the survivors run, {len(caught)} are caught by the quick tier (reduced: every 8th, then every 2nd shard) of a relevant check, {len(herr)} make a check stop with a harness error (exit 2: an exception outside the library, e.g. a renamed private helper), {len(missed)} are caught by none.", "",
           "## Survivors caught by no check", "", "| mutant | change | checks run | assessment |", "|---|---|---|---|"]
    for k, v in sorted(missed.items()):
        out.append(f"| {k} | {v['file'].split('/')[-1]} {v['desc'].replace('|', '/')} | {' '.join(p for p, _ in v['ran'])} | {notes.get(k, '')} |")
    out += ["", "## Survivors caught", "", "| mutant | change | caught by |", "|---|---|---|"]
    for k, v in sorted(caught.items()):
        out.append(f"| {k} | {v['file'].split('/')[-1]} {v['desc'].replace('|', '/')} | {v['caught'][0]}: {v['caught'][1]} |")
    if herr:
        out += ["", "## Harness errors", ""]
        for k, v in sorted(herr.items()):
            out.append(f"* {k} {v['desc']}: {v['caught']}")
    (VERIF / "selftest" / "AUTOMUT.md").write_text("\n".join(out) + "\n")
    print(len(caught), "caught", len(missed), "missed", len(herr), "harness errors")


if __name__ == "__main__":
    cmd = sys.argv[1]
    if cmd == "gen":
        cmd_gen()
    elif cmd == "tests":
        cmd_tests()
    elif cmd == "checks":
        cmd_checks(sys.argv[2] if len(sys.argv) > 2 else None)
    elif cmd == "report":
        cmd_report()
    elif cmd == "one":
        # automut.py one <mutant id> <pid> [<pid> ...]: full quick tier of the given checks against one mutant
        allm = {m["id"]: m for m in json.loads((OUT / "mutants.json").read_text())}
        m = allm[sys.argv[2]]
        repo = _scratch("one")
        (repo / m["file"]).write_text(m["src"])
        try:
            for pid in sys.argv[3:]:
                p = subprocess.run(["/venv/bin/python", "-m", "vpbt", pid, "--tier", os.environ.get("TIER", "quick"), "--no-evidence"], cwd=VERIF, capture_output=True, text=True, env=dict(os.environ, VERIF_REPO=str(repo), VPBT_FOUND_DIR=str(SCR / "foundone")))
                print(pid, p.returncode, [l[:200] for l in p.stdout.splitlines() if l.startswith("violation-detail")][:3])
        finally:
            shutil.rmtree(SCR / "wone", ignore_errors=True)
            shutil.rmtree(SCR / "foundone", ignore_errors=True)
