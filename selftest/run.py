#!/venv/bin/python
"""Sensitivity self-test: apply small realistic mutants to a scratch copy of
/repo (outside /repo and /verif, removed afterwards), run the repository's
test suite there and the quick tier of the targeted checks with VERIF_REPO
pointing at the copy.  Expected: tests pass, check exits 1.

    selftest/run.py [--tests] [name-substring ...]

Not a manifest check.  Results are written to selftest/RESULTS.md.
"""

from __future__ import annotations

import os
import shutil
import subprocess
import sys
import tempfile
import time
from pathlib import Path

VERIF = Path(__file__).resolve().parent.parent
sys.path.insert(0, str(VERIF))
from selftest.mutants import MUTANTS  # noqa: E402


def run_one(m, with_tests):
    d = Path(tempfile.mkdtemp(prefix="vpbt-mut-", dir="/tmp"))
    try:
        shutil.copytree("/repo", d / "repo", ignore=shutil.ignore_patterns(".git", "__pycache__", "*.egg-info", "docs"))
        f = d / "repo" / m["file"]
        s = f.read_text()
        if s.count(m["old"]) != 1:
            return dict(name=m["name"], status=f"PATCH-ERROR old text occurs {s.count(m['old'])} times")
        f.write_text(s.replace(m["old"], m["new"]))
        res = dict(name=m["name"], tests="skipped", checks={})
        if with_tests:
            p = subprocess.run(["/venv/bin/python", "-m", "pytest", "-q", "-p", "no:cacheprovider", "-x", "numba_scfg/tests"], cwd=d / "repo", capture_output=True, text=True, env=dict(os.environ, PYTHONPATH=str(d / "repo")))
            res["tests"] = "pass" if p.returncode == 0 else "FAIL"
        for pid in m["pids"]:
            t = time.time()
            p = subprocess.run(["/venv/bin/python", "-m", "vpbt", pid, "--tier", "quick", "--no-evidence"], cwd=VERIF, capture_output=True, text=True, env=dict(os.environ, VERIF_REPO=str(d / "repo")))
            sigs = [l.split(" :: ")[0].replace("violation-detail: ", "") for l in p.stdout.splitlines() if l.startswith("violation-detail")]
            res["checks"][pid] = dict(exit=p.returncode, sigs=sigs[:3], wall=round(time.time() - t, 1))
        return res
    finally:
        shutil.rmtree(d, ignore_errors=True)


def main():
    args = [a for a in sys.argv[1:] if not a.startswith("--")]
    with_tests = "--tests" in sys.argv
    rows = []
    for m in MUTANTS:
        if args and not any(a in m["name"] for a in args):
            continue
        r = run_one(m, with_tests)
        rows.append(r)
        print(r, flush=True)
    if not args:
        out = ["# Mutant self-test results (quick tier)", "", "| mutant | repo tests | check: exit (first signatures) |", "|---|---|---|"]
        for r in rows:
            if "checks" not in r:
                out.append(f"| {r['name']} | - | {r['status']} |")
                continue
            cs = "; ".join(f"{pid}: {c['exit']} ({', '.join(c['sigs']) or '-'}) {c['wall']}s" for pid, c in r["checks"].items())
            out.append(f"| {r['name']} | {r['tests']} | {cs} |")
        (VERIF / "selftest" / "RESULTS.md").write_text("\n".join(out) + "\n")


if __name__ == "__main__":
    main()
