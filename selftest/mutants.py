"""Small realistic slips (each compiles; most keep the 82 tests green)."""

T = "numba_scfg/core/transformations.py"
S = "numba_scfg/core/datastructures/scfg.py"
B = "numba_scfg/core/datastructures/basic_block.py"
A = "numba_scfg/core/datastructures/ast_transforms.py"
F = "numba_scfg/core/datastructures/flow_info.py"
U = "numba_scfg/core/utils.py"
R = "numba_scfg/rendering/rendering.py"
N = "numba_scfg/networkx_vendored/scc.py"

MUTANTS = [
    dict(name="latch-table-swapped", file=T, pids=["C10", "C07"],
         old="            i: j for i, j in enumerate((loop_head, next(iter(exit_blocks))))",
         new="            i: j for i, j in enumerate((next(iter(exit_blocks)), loop_head))"),
    dict(name="ctrl-value-not-incremented", file=S, pids=["C01", "C06", "C14"],
         old="                branch_variable_value += 1\n", new="                pass\n"),
    dict(name="update-exiting-no-recursion", file=T, pids=["C04", "C01"],
         old="    if isinstance(region_exiting_block, RegionBlock):\n        region_exiting_block = update_exiting(",
         new="    if False and isinstance(region_exiting_block, RegionBlock):\n        region_exiting_block = update_exiting("),
    dict(name="unsorted-loop-members", file=T, pids=["C12"], old="    for name in sorted(loop):", new="    for name in loop:"),
    dict(name="unsorted-region-blocks", file=T, pids=["C12"], old="        {name: scfg.graph[name] for name in sorted(region_blocks)},", new="        {name: scfg.graph[name] for name in region_blocks},"),
    dict(name="unsorted-headers-entries", file=S, pids=["C12", "C13"], old="        return sorted(headers), sorted(entries)", new="        return list(headers), list(entries)"),
    dict(name="unsorted-exiting-exits", file=S, pids=["C12", "C13"], old="        return sorted(exiting), sorted(exits)", new="        return list(exiting), list(exits)"),
    dict(name="unsorted-ctrl-successors", file=S, pids=["C12"], old="            for s in sorted(set(jt).intersection(successors)):", new="            for s in set(jt).intersection(successors):"),
    dict(name="scc-lowlink-ge", file=N, pids=["C13", "C02"], old="                            if preorder[w] > preorder[v]:", new="                            if preorder[w] >= preorder[v]:"),
    dict(name="reachable-starts-at-begin", file=S, pids=["C13"], old="        to_vist = list(self.graph[begin].jump_targets)", new="        to_vist = [begin]"),
    dict(name="self-loop-is-no-loop", file=T, pids=["C02"], old="        if len(nodes) > 1\n        or next(iter(nodes)) in scfg[next(iter(nodes))].jump_targets", new="        if len(nodes) > 1"),
    dict(name="find-head-first-of-many", file=S, pids=["C13"], old="        assert len(heads) == 1\n        return next(iter(heads))", new="        return next(iter(sorted(heads)))"),
    dict(name="exits-ignore-returns", file=S, pids=["C13", "C01"], old="            if self.graph[inside].is_exiting:\n                exiting.add(inside)", new="            pass"),
    dict(name="for-iter-no-fallthrough", file=U, pids=["C09"], old='    "FOR_ITER",\n', new=""),
    dict(name="block-end-off-by-one", file=F, pids=["C09"], old="            end_offset = _next_inst_offset(self.last_offset)", new="            end_offset = self.last_offset"),
    dict(name="jump-target-order-swapped", file=F, pids=["C09"], old="                    inst.offset, (_next_inst_offset(inst.offset), inst.argval)", new="                    inst.offset, (inst.argval, _next_inst_offset(inst.offset))"),
    dict(name="fill-pass-twice", file=A, pids=["C10"], old="            return [ast.Pass()]", new="            return [ast.Pass(), ast.Pass()]"),
    dict(name="assignment-emitted-only-first-var", file=A, pids=["C10", "C07"],
         old="                for t, v in block.variable_assignment.items()\n            ]", new="                for t, v in list(block.variable_assignment.items())[:1]\n            ]"),
    dict(name="namegen-region-restart", file=S, pids=["C18"],
         old='            name = str(kind) + "_region_" + str(idx)\n            self.kinds[kind] = idx + 1\n        else:', new='            name = str(kind) + "_region_" + str(idx)\n            self.kinds[kind] = idx\n        else:'),
    dict(name="namegen-no-reserve-vars", file=S, pids=["C18"], old='    r"|__scfg_(?P<var_kind>.+)_var_(?P<var_index>\\d+)__)$"', new='    r"|__scfg_(?P<var_kind>.+)_variable_(?P<var_index>\\d+)__)$"'),
    dict(name="to-dict-sorts-edges", file=S, pids=["C15"], old="            edges[key] = [i for i in value._jump_targets]", new="            edges[key] = sorted([i for i in value._jump_targets])"),
    dict(name="from-dict-drops-backedges-order", file=S, pids=["C15"], old="            backedges[key] = [i for i in value.backedges]", new="            backedges[key] = []"),
    dict(name="render-edge-to-exiting", file=R, pids=["C17"], old="                block = blocks[block.header]  # type: ignore", new="                block = blocks[block.exiting]  # type: ignore"),
    dict(name="render-no-dashed", file=R, pids=["C17"], old='                        style="dashed",\n', new=""),
    dict(name="with-accepted-as-expression", file=A, pids=["C11"],
         old="                ast.Break,\n                ast.Continue,\n                ast.Pass,\n            ),\n        ):\n            self.current_block.instructions.append(node)",
         new="                ast.Break,\n                ast.Continue,\n                ast.Pass,\n                ast.With,\n            ),\n        ):\n            self.current_block.instructions.append(node)"),
    dict(name="view-continues-at-region-targets-twice", file=S, pids=["C16"], old="                to_visit.extend(block.subregion[block.exiting].jump_targets)", new="                to_visit.extend(block.subregion[block.header].jump_targets)"),
    dict(name="iter-skips-subregions-of-tail", file=S, pids=["C16", "C17"], old="            if type(block) == RegionBlock:  # noqa: E721\n                assert block.subregion is not None\n                yield from block.subregion", new="            if type(block) == RegionBlock and block.kind != 'tail':  # noqa: E721\n                assert block.subregion is not None\n                yield from block.subregion"),
    dict(name="insert-block-appends", file=S, pids=["C14", "C01"], old="                            jt[jt.index(s)] = new_name", new="                            jt.remove(s)\n                            jt.append(new_name)"),
    dict(name="join-returns-needs-three", file=S, pids=["C14", "C01"], old="        if len(return_nodes) > 1:", new="        if len(return_nodes) > 2:"),
    dict(name="or-targets-swapped", file=A, pids=["C08", "C07"], old="            self.current_block.set_jump_targets(\n                merge_block_index, false_block_index\n            )", new="            self.current_block.set_jump_targets(\n                false_block_index, merge_block_index\n            )"),
    dict(name="while-else-runs-on-break", file=A, pids=["C08", "C07"], old="        self.loop_stack.append(LoopIndices(head_index, exit_index))\n\n        # Recurs into the body of the while statement.", new="        self.loop_stack.append(LoopIndices(head_index, else_index))\n\n        # Recurs into the body of the while statement."),
    dict(name="insert-block-loses-class", file=S, pids=["C05", "C14"], old="            self.add_block(_replace_jump_targets(block, tuple(jt)))", new="            self.add_block(BasicBlock(name=block.name, _jump_targets=tuple(jt), backedges=block.backedges) if type(block) is PythonBytecodeBlock else _replace_jump_targets(block, tuple(jt)))"),
    dict(name="restructure-asserts-two-exits", file=T, pids=["C02"], old="    needs_synth_exit = len(exit_blocks) > 1\n", new="    needs_synth_exit = len(exit_blocks) > 1\n    assert len(exit_blocks) <= 2\n"),
    dict(name="table-merge-drops-entry", file=B, pids=["C06", "C01", "C14"], old="            replacement = dict(zip(old_jump_targets, jump_targets))", new="            replacement = dict(list(zip(old_jump_targets, jump_targets))[:2])"),
    dict(name="exit-var-reverse-lookup-default-zero", file=T, pids=["C06", "C01"], old="        else:\n            return -1\n", new="        else:\n            return 0\n"),
    dict(name="region-parent-not-updated", file=T, pids=["C04"], old='            object.__setattr__(v, "parent_region", region)', new="            pass"),
    dict(name="prune-keeps-nothing-for-equal-targets", file=A, pids=["C07", "C08", "C02"], old="                ) or any(\n                    name in b.jump_targets and it in b.jump_targets\n                    for b in others\n                ):", new="                ):"),
]
