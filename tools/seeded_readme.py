#!/venv/bin/python
"""Regenerates seeded/README.md from seeded/*/meta.json."""
import json
from pathlib import Path

V = Path(__file__).resolve().parent.parent
rows = []
for d in sorted((V / "seeded").iterdir()):
    m = d / "meta.json"
    if not m.exists():
        continue
    j = json.loads(m.read_text())
    a = j.get("author", {})
    c = j.get("confirmed", {})
    checks = "; ".join(f"{pid}: {'caught' if v.get('caught') else 'MISSED'} ({v.get('tier')})" for pid, v in c.get("checks", {}).items())
    first = next((v["details"][0].split(" :: ")[0] for v in c.get("checks", {}).values() if v.get("details")), "")
    note = (d / "ASSESSMENT.txt").read_text().strip() if (d / "ASSESSMENT.txt").exists() else ""
    rows.append((j["id"], a.get("property", ""), (a.get("summary") or "")[:160], (a.get("needs") or "")[:160], "yes" if c.get("valid") else "NO", checks, first, note))
out = [
    "# Independently written breaking changes",
    "",
    "Each directory holds a change to numba_scfg written by a sub-agent that saw only the text of one property and a scratch",
    "worktree (nothing of /verif): `patch.diff`, the author's `demo.py` (exit 0 on the unchanged tree, non-zero with the change),",
    "`meta.json` (author's description + what `tools/seeded.py` confirmed: demo both ways, the 82 tests pass with the change, and the",
    "exit code of the listed checks run with VERIF_REPO pointing at a patched scratch copy), and `caught-by-<pid>.json` (the shrunk replay).",
    "None of these changes is ever committed to /repo. Every patch applies to /repo's current HEAD (`git -C /repo apply --check`); six patches",
    "that edit the helper `_replace_jump_targets` were re-based by hand onto the later fix 8a2d47d (same mutation, new variable names) and re-confirmed.",
    "",
    "| id | property | change | needs | valid | checks | first signature | assessment |",
    "|---|---|---|---|---|---|---|---|",
]
for r in rows:
    out.append("| " + " | ".join(str(x).replace("|", "/").replace("\n", " ") for x in r) + " |")
(V / "seeded" / "README.md").write_text("\n".join(out) + "\n")
print(len(rows), "rows")
