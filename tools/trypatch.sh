#!/bin/bash
# tools/trypatch.sh <patch.diff> <pid> [<pid> ...] : quick tier of the given checks against a scratch copy of /repo with the patch applied
patch=$(realpath $1); shift
d=$(mktemp -d /tmp/trypatch-XXXX)
cp -r /repo $d/repo && rm -rf $d/repo/.git
(cd $d/repo && patch -p1 -s --no-backup-if-mismatch -i $patch) || { echo "patch failed"; rm -rf $d; exit 2; }
cd "$(dirname "$0")/.."
for p in "$@"; do
  VERIF_REPO=$d/repo VPBT_FOUND_DIR=$d/found /venv/bin/python -m vpbt $p --tier ${TIER:-quick} --no-evidence 2>&1 | grep -v Warning | grep -E "^(violation-detail|HARNESS|C[0-9]+ tier|WEAK)" | cut -c1-300
done
rm -rf $d
