#!/venv/bin/python
"""tools/seeded.py <src_dir> <id> <pid> [<pid> ...]

Confirms an independently written breaking change and records it under
/verif/seeded/<id>/ :
  1. scratch copy of /repo's working tree under /tmp (removed afterwards);
  2. demo.py on the unchanged copy           -> must exit 0;
  3. patch.diff applied                      -> must apply;
  4. repository test suite on the copy       -> must pass;
  5. demo.py on the changed copy             -> must exit non-zero;
  6. quick tier of the given checks with VERIF_REPO=<copy> -> exit codes and
     signatures recorded (1 = caught).
Writes meta.json (agent's meta + what was run here).
"""

import json
import os
import shutil
import subprocess
import sys
import tempfile
from pathlib import Path

VERIF = Path(__file__).resolve().parent.parent


def sh(cmd, cwd, env=None, timeout=3600):
    p = subprocess.run(cmd, cwd=cwd, capture_output=True, text=True, env=env, timeout=timeout)
    return p.returncode, (p.stdout + p.stderr)


def main():
    src, sid, pids = Path(sys.argv[1]), sys.argv[2], sys.argv[3:]
    tier = os.environ.get("SEEDED_TIER", "quick")
    out = VERIF / "seeded" / sid
    out.mkdir(parents=True, exist_ok=True)
    for f in ("patch.diff", "demo.py"):
        if (src / f).exists() and src.resolve() != out.resolve():
            shutil.copy(src / f, out / f)
    agent_meta = {}
    if (src / "meta.json").exists():
        try:
            agent_meta = json.loads((src / "meta.json").read_text())
            agent_meta = agent_meta.get("author", agent_meta) if "confirmed" in agent_meta else agent_meta
        except Exception:
            agent_meta = {"raw": (src / "meta.json").read_text()[:2000]}
    d = Path(tempfile.mkdtemp(prefix="seedchk-", dir="/tmp"))
    res = {}
    try:
        repo = d / "repo"
        shutil.copytree("/repo", repo, ignore=shutil.ignore_patterns(".git", "__pycache__", "*.egg-info", "docs"))
        env = dict(os.environ, PYTHONPATH=str(repo), PYTHONDONTWRITEBYTECODE="1")
        rc, o = sh(["/venv/bin/python", str(out / "demo.py")], repo, env)
        res["demo_unchanged"] = dict(exit=rc, tail=o.strip()[-300:])
        rc, o = sh(["patch", "-p1", "--no-backup-if-mismatch", "-i", str(out / "patch.diff")], repo)
        res["patch_applies"] = rc == 0
        if rc != 0:
            res["patch_output"] = o[-500:]
        rc, o = sh(["/venv/bin/python", "-m", "pytest", "-q", "-p", "no:cacheprovider", "numba_scfg/tests"], repo, env)
        res["tests"] = dict(exit=rc, tail=o.strip().splitlines()[-1] if o.strip() else "")
        rc, o = sh(["/venv/bin/python", str(out / "demo.py")], repo, env)
        res["demo_changed"] = dict(exit=rc, tail=o.strip()[-400:])
        res["checks"] = {}
        for pid in pids:
            rc, o = sh(["/venv/bin/python", "-m", "vpbt", pid, "--tier", tier, "--no-evidence"], VERIF, dict(os.environ, VERIF_REPO=str(repo)))
            sigs = [l.replace("violation-detail: ", "")[:300] for l in o.splitlines() if l.startswith("violation-detail")]
            res["checks"][pid] = dict(exit=rc, caught=rc == 1, tier=tier, details=sigs[:3])
            # keep the shrunk replay of the first catch as documentation
            if rc == 1:
                for l in o.splitlines():
                    if l.startswith("VIOLATION") and "replays/found" in l:
                        rp = Path(l.split("replay=")[1].strip())
                        if rp.exists():
                            shutil.copy(rp, out / f"caught-by-{pid}.json")
                        break
    finally:
        shutil.rmtree(d, ignore_errors=True)
    valid = res.get("demo_unchanged", {}).get("exit") == 0 and res.get("patch_applies") and res.get("tests", {}).get("exit") == 0 and res.get("demo_changed", {}).get("exit", 0) != 0
    meta = dict(id=sid, author=agent_meta, confirmed=dict(valid=bool(valid), **res))
    (out / "meta.json").write_text(json.dumps(meta, indent=1) + "\n")
    print(json.dumps(dict(id=sid, valid=bool(valid), tests=res.get("tests"), demo=(res.get("demo_unchanged", {}).get("exit"), res.get("demo_changed", {}).get("exit")), checks={k: (v["exit"], v["details"][:1]) for k, v in res.get("checks", {}).items()}), indent=1)[:1500])


if __name__ == "__main__":
    main()
