#!/bin/bash
# tools/refresh_evidence.sh [seed] : run every registered quick check in /verif against /repo, rewriting evidence/<id>.json; validate them
seed=${1:-1}
cd "$(dirname "$0")/.."
for p in C01 C02 C03 C04 C05 C06 C07 C08 C09 C10 C11 C12 C13 C14 C15 C16 C17 C18; do
  VERIF_SEED=$seed /venv/bin/python -m vpbt $p --tier quick 2>&1 | grep -v Warning | grep -E "^(VIOLATION|violation-detail|HARNESS|WEAK|C[0-9]+ tier)" | cut -c1-200
done
python3-vt - <<'P' 2>&1 | grep -v Warning
import json, jsonschema, glob
s = json.load(open('/root/.vp/EVIDENCE.schema.json'))
for f in sorted(glob.glob('/verif/evidence/C*.json')):
    jsonschema.validate(json.load(open(f)), s)
print("evidence ok", len(glob.glob('/verif/evidence/C*.json')))
P
