#!/bin/bash
# tools/runall.sh <tier> <seed> : run every registered check once, print one line each
tier=${1:-quick}; seed=${2:-1}
cd "$(dirname "$0")/.."
for p in C01 C02 C03 C04 C05 C06 C07 C08 C09 C10 C11 C12 C13 C14 C15 C16 C17 C18; do
  VERIF_SEED=$seed timeout 7200 /venv/bin/python -m vpbt $p --tier $tier --no-evidence 2>&1 | grep -v Warning | grep -E "^(VIOLATION|violation-detail|HARNESS|C[0-9]+ tier)" | cut -c1-260
done
