#!/bin/bash
# tools/selfcheck.sh : cheap sanity before a commit - every module imports, the manifest validates
cd "$(dirname "$0")/.."
PYTHONPATH=/repo:/verif PYTHONDONTWRITEBYTECODE=1 /venv/bin/python - <<'P' 2>&1 | grep -v Warning
import importlib, logging, pkgutil, sys
logging.disable(logging.CRITICAL)
import vpbt, vpbt.checks
bad = 0
for pkg in (vpbt, vpbt.checks):
    for m in pkgutil.iter_modules(pkg.__path__):
        name = pkg.__name__ + "." + m.name
        if name.endswith("__main__") or name.endswith("fuzz_child") or name.endswith("c12_child"):
            continue
        try:
            importlib.import_module(name)
        except Exception as e:
            bad += 1
            print("IMPORT-ERROR", name, type(e).__name__, e)
print("modules ok" if not bad else f"{bad} modules broken")
sys.exit(1 if bad else 0)
P
python3-vt -c "
import json,jsonschema
m=json.load(open('/verif/MANIFEST.json')); s=json.load(open('/root/.vp/MANIFEST.schema.json')); jsonschema.validate(m,s); print('manifest ok')" 2>&1 | grep -v Warning | tail -1
