#!/venv/bin/python
"""Regenerates /verif/MANIFEST.json from the table below (kept in one place so
that the manifest is always schema-valid)."""
import json
import sys
from pathlib import Path

VERIF = Path(__file__).resolve().parent.parent

CHECKS = {
    # pid: (technique, level text, level note, design ref)
}


def entry(pid, technique, text, note, ref):
    return {
        "property_id": pid,
        "quick_cmd": f"/venv/bin/python -m vpbt {pid} --tier quick",
        "thorough_cmd": f"/venv/bin/python -m vpbt {pid} --tier thorough",
        "evidence_file": f"/verif/evidence/{pid}.json",
        "replay_cmd_template": f"/venv/bin/python -m vpbt {pid} --replay {{path}}",
        "engine": "vpbt",
        "level_claimed": {"category": "exploration", "text": text, "design_ref": ref},
        "level_note": note,
        "technique": technique,
    }


def main():
    sys.path.insert(0, str(VERIF))
    from tools.manifest_table import CHECKS, NOT_APPLICABLE, HOOK_COMMITS

    props = [json.loads(l)["id"] for l in (VERIF / "properties.jsonl").read_text().splitlines() if l.strip()]
    checks = [entry(pid, *CHECKS[pid]) for pid in props if pid in CHECKS]
    na = [{"property_id": p, "reason": NOT_APPLICABLE.get(p, "check not built yet in this round; see DESIGN.md section 12 for the order of implementation")} for p in props if p not in CHECKS]
    m = {
        "version": 1,
        "setup_cmd": "(/venv/bin/python -c 'import hypothesis' 2>/dev/null || /venv/bin/pip install --no-index --find-links /opt/veriftools/wheels hypothesis) && (test -d /verif/.deps/atheris || /venv/bin/pip install -q --no-index --find-links /opt/veriftools/wheels --target /verif/.deps atheris || echo 'atheris not installed: the coverage-guided leg will be skipped and the evidence says so')",
        "hooks": {
            "guard": "NUMBA_SCFG_VERIF",
            "enable": "no source hooks are needed: the checks import /repo's working tree directly (pure Python) and install their monitors by wrapping methods at run time",
            "baseline_off_cmd": "cd /repo && /venv/bin/python -m pytest -q -p no:cacheprovider --timeout=900 numba_scfg/tests",
            "source_commits": HOOK_COMMITS,
            "add_only": True,
        },
        "engines": [
            {
                "name": "vpbt",
                "path": "/verif/vpbt",
                "serves_properties": [c["property_id"] for c in checks],
                "kind_free_text": "property-based testing: exhaustive small-scope enumeration + Hypothesis strategies / rule-based state machines + standard-library corpus + coverage-guided fuzzing (atheris) for the graph family, each judged by an independent executable oracle; 16 processes",
            }
        ],
        "checks": checks,
        "not_applicable": na,
        "notes": "All checks: exit 0 held / 1 VIOLATION lines / 2 harness error. VERIF_SEED and VERIF_TIER are honoured; VERIF_REPO (default /repo) selects the tree under test. Known findings: /verif/known_findings.txt.",
    }
    (VERIF / "MANIFEST.json").write_text(json.dumps(m, indent=1) + "\n")

if __name__ == "__main__":
    main()
