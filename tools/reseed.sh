#!/bin/bash
# tools/reseed.sh <id> [<id> ...] : re-confirm recorded seeded changes with the checks recorded in their meta.json
cd "$(dirname "$0")/.."
for id in "$@"; do
  pids=$(/venv/bin/python -c "import json;print(' '.join(json.load(open('seeded/$id/meta.json'))['confirmed']['checks'].keys()))" 2>/dev/null)
  /venv/bin/python tools/seeded.py seeded/$id $id $pids 2>&1 | grep -v Warning | grep -E '"id"|valid' | tr -d '\n'; echo
  /venv/bin/python - <<P
import json
m=json.load(open('seeded/$id/meta.json'))
print('   ', {k:('caught' if v['caught'] else 'MISSED') for k,v in m['confirmed']['checks'].items()})
P
done
