#!/bin/bash
# tools/runsome.sh <tier> <seed> <pid> [<pid> ...] : like runall.sh for the given checks, in the given order
tier=$1; seed=$2; shift 2
cd "$(dirname "$0")/.."
for p in "$@"; do
  VERIF_SEED=$seed timeout 7200 /venv/bin/python -m vpbt $p --tier $tier --no-evidence 2>&1 | grep -v Warning | grep -E "^(VIOLATION|violation-detail|HARNESS|WEAK|C[0-9]+ tier)" | cut -c1-260
done
