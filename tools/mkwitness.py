#!/venv/bin/python
"""tools/mkwitness.py PID name < input.json  -> writes replays/known/PID-name.json and prints the signatures the replay yields"""
import json, sys, importlib
from pathlib import Path
V = Path(__file__).resolve().parent.parent
sys.path[:0] = ["/repo", str(V)]
import logging; logging.disable(50)
pid, name = sys.argv[1], sys.argv[2]
kind = sys.argv[3] if len(sys.argv) > 3 else "known"
inp = json.load(sys.stdin)
mod = importlib.import_module(f"vpbt.checks.{pid.lower()}")
r = mod.replay(inp)
p = V / "replays" / kind / f"{pid}-{name}.json"
p.write_text(json.dumps(dict(property=pid, input=inp, sigs=[s for s, _ in r], msg=r[0][1] if r else ""), indent=1) + "\n")
for s, m in r: print(s, "::", m[:300])
print("wrote", p)
