"""vpbt - property-based testing / fuzzing machinery deciding the 18 listed
properties of numba-rvsdg (numba_scfg).  See /verif/DESIGN.md."""
