"""C09 validity predicate of a bytecode graph against M8 (dis/opcode ground
truth).  Standard library + the library under test only, so that the same file
runs in the 3.11 child interpreter (no Hypothesis there).

Also the entry point of that child:
    python3.11 -m vpbt.c09_oracle <shard> <nshards> <limit> [<sources.json>]
prints one JSON object.
"""

from __future__ import annotations

import dis
import json
import sys

from vpbt import bytecode_model as bm


class V(Exception):
    def __init__(self, clause, msg):
        super().__init__(f"{clause}: {msg}")
        self.clause, self.msg = clause, msg


def check_code(code):
    """raises V.  Returns dict(info)."""
    from numba_scfg.core.datastructures.byte_flow import ByteFlow

    try:
        bf = ByteFlow.from_bytecode(code)
    except Exception as e:
        import traceback

        fr = [f for f in traceback.extract_tb(e.__traceback__) if "numba_scfg" in f.filename]
        where = f"{fr[-1].filename.split('/')[-1]}:{fr[-1].name}" if fr else "?"
        raise V(f"B-raise:{type(e).__name__}@{where}", f"ByteFlow.from_bytecode raised {type(e).__name__}: {e}")
    ins = bm.instructions(code)
    offs = [i.offset for i in ins]
    nxt = dict(zip(offs, offs[1:]))
    for name, b in bf.scfg.graph.items():
        if type(b).__name__ != "PythonBytecodeBlock" or not isinstance(getattr(b, "begin", None), int) or not isinstance(getattr(b, "end", None), int):
            raise V("B-type", f"the graph built from bytecode contains {name}, a {type(b).__name__}, which is not a bytecode block with begin/end offsets")
    blocks = sorted(bf.scfg.graph.values(), key=lambda b: b.begin)
    for name, b in bf.scfg.graph.items():
        if name != b.name:
            raise V("B-name", f"key {name} != block name {b.name}")
    if not blocks or blocks[0].begin != 0:
        raise V("B-tile-first", f"first block begins at {blocks[0].begin if blocks else None}")
    for a, b in zip(blocks, blocks[1:]):
        if a.end != b.begin:
            raise V("B-tile", f"blocks {a.name} [{a.begin},{a.end}) and {b.name} [{b.begin},{b.end}) leave a gap or overlap")
    if blocks[-1].end != len(code.co_code):
        raise V("B-tile-last", f"last block ends at {blocks[-1].end}, code has {len(code.co_code)} bytes")

    def blk_of(off):
        lo, hi = 0, len(blocks) - 1
        while lo <= hi:
            m = (lo + hi) // 2
            b = blocks[m]
            if off < b.begin:
                hi = m - 1
            elif off >= b.end:
                lo = m + 1
            else:
                return b
        raise V("B-cover", f"instruction offset {off} lies in no block")

    first, last = {}, {}
    for i in ins:
        b = blk_of(i.offset)
        first.setdefault(b.name, i.offset)
        last[b.name] = i.offset
    if len(first) != len(blocks):
        raise V("B-empty", "a block contains no instruction")
    byoff = {i.offset: i for i in ins}
    for i in ins:
        b = blk_of(i.offset)
        isj = i.opcode in bm.JUMPS
        if isj:
            t = i.argval
            if t not in byoff:
                raise V("B-target", f"jump target {t} of {i.opname}@{i.offset} is not an instruction")
            if first[blk_of(t).name] != t:
                raise V("B-entry", f"control can enter block {blk_of(t).name} in the middle: {i.opname}@{i.offset} jumps to {t}, block's first instruction is {first[blk_of(t).name]}")
        if isj or i.opname in bm.NOFALL:
            if last[b.name] != i.offset:
                raise V("B-leave", f"{i.opname}@{i.offset} is not the last instruction of its block {b.name} (last is {last[b.name]})")
    for b in blocks:
        li = byoff[last[b.name]]
        exp = []
        if li.opname not in bm.NOFALL:
            if li.offset not in nxt:
                raise V("B-falloff", f"last instruction {li.opname}@{li.offset} falls off the end of the code")
            nb = blk_of(nxt[li.offset])
            if first[nb.name] != nxt[li.offset]:
                raise V("B-entry", f"fall-through from {b.name} enters {nb.name} in the middle")
            exp.append(nb.name)
        if li.opcode in bm.JUMPS:
            exp.append(blk_of(li.argval).name)
        if tuple(exp) != tuple(b._jump_targets):
            raise V("B-succ", f"successors of {b.name} (ends in {li.opname}@{li.offset}) are {b._jump_targets}, the instruction allows {tuple(exp)} (fall-through first, then jump target)")
        if b.backedges:
            raise V("B-backedge", f"fresh bytecode graph declares back edges on {b.name}")
    # every instruction exactly once, through the library's own block -> instructions API
    bcmap = {i.offset: i for i in dis.get_instructions(code)}
    got = []
    for b in blocks:
        try:
            bi = b.get_instructions(bcmap)
        except Exception as e:
            raise V(f"B-insts-raise:{type(e).__name__}", f"get_instructions of {b.name} raised {type(e).__name__}: {e}")
        got.extend((i.offset, i.opname) for i in bi)
    want = [(i.offset, i.opname) for i in ins]
    if got != want:
        miss = [x for x in want if x not in set(got)][:3]
        extra = [x for x in got if x not in set(want)][:3]
        raise V("B-insts", f"blocks' get_instructions() enumerate {len(got)} instructions, the code has {len(want)}; missing {miss} extra/duplicated {extra}")
    # state carried between builds: a second build of the same function is again the fresh bytecode graph,
    # also when the first result was restructured in place meanwhile
    snap = [(b.name, type(b).__name__, b.begin, b.end, tuple(b._jump_targets), tuple(b.backedges)) for b in blocks]
    if len(blocks) <= 40:
        try:
            bf.scfg.restructure()
        except Exception:
            pass  # C02's business
    # the two steps of from_bytecode called separately, the flow-information object asked for its blocks twice
    try:
        from numba_scfg.core.datastructures.flow_info import FlowInfo

        fi = FlowInfo.from_bytecode(dis.Bytecode(code))
        builds = [fi.build_basicblocks(), fi.build_basicblocks()]
    except Exception as e:
        raise V(f"B-rebuild-raise:{type(e).__name__}", f"FlowInfo.from_bytecode + build_basicblocks twice raised {type(e).__name__}: {e}")
    for k, g_ in enumerate(builds):
        sn = [(b.name, type(b).__name__, getattr(b, "begin", None), getattr(b, "end", None), tuple(b._jump_targets), tuple(b.backedges)) for b in sorted(g_.graph.values(), key=lambda b: (getattr(b, "begin", -1), b.name))]
        if sn != snap:
            raise V("B-rebuild", f"build_basicblocks call #{k + 1} on one FlowInfo object gives a graph that differs from ByteFlow.from_bytecode's ({len(sn)} vs {len(snap)} blocks)")
    try:
        bf2 = ByteFlow.from_bytecode(code)
    except Exception as e:
        raise V(f"B-rebuild-raise:{type(e).__name__}", f"second from_bytecode raised {type(e).__name__}: {e}")
    snap2 = []
    for b in sorted(bf2.scfg.graph.values(), key=lambda b: (getattr(b, "begin", -1), b.name)):
        snap2.append((b.name, type(b).__name__, getattr(b, "begin", None), getattr(b, "end", None), tuple(b._jump_targets), tuple(b.backedges)))
    if snap2 != snap:
        d = [x for x in snap2 if x not in snap][:2]
        raise V("B-rebuild", f"building the graph of the same function again gives a different graph (e.g. {d}); first build had {len(snap)} blocks, second {len(snap2)}")
    ops = {i.opname for i in ins if i.opcode in bm.JUMPS or i.opname in bm.RETURNS}
    return dict(blocks=len(blocks), cond=sum(1 for i in ins if i.opcode in bm.JUMPS and i.opname not in bm.NOFALL), ops=ops)


def run_corpus(shard, nshards, limit, sources=None):
    out = dict(version=list(sys.version_info[:3]), evaluated=0, ineligible=0, nontrivial=0, failures={}, ops=set(), samples=[])
    items = []
    if sources:
        for k, src in enumerate(sources):
            try:
                ns = {}
                exec(compile(src, f"<gen{k}>", "exec"), ns)
                for nm, v in ns.items():
                    if callable(v) and hasattr(v, "__code__") and nm != "__builtins__":
                        codes = []
                        bm._codes_of(v.__code__, codes, set())
                        for c in codes:
                            items.append((f"gen{k}:{c.co_name}", c, src))
            except SyntaxError:
                continue
    else:
        for label, code in bm.corpus_codes(shard, nshards):
            items.append((label, code, None))
    n = 0
    for label, code, src in items:
        if n >= limit:
            break
        if not bm.eligible(code):
            out["ineligible"] += 1
            continue
        n += 1
        out["evaluated"] += 1
        try:
            info = check_code(code)
            out["ops"] |= info["ops"]
            if info["cond"] >= 1:
                out["nontrivial"] += 1
                if len(out["samples"]) < 3:
                    out["samples"].append(label)
        except V as v:
            f = out["failures"].setdefault(v.clause, dict(n=0, label=label, msg=v.msg, src=src, size=len(code.co_code)))
            f["n"] += 1
            if len(code.co_code) < f["size"]:
                f.update(label=label, msg=v.msg, src=src, size=len(code.co_code))
    out["ops"] = sorted(out["ops"])
    return out


if __name__ == "__main__":
    shard, nshards, limit = int(sys.argv[1]), int(sys.argv[2]), int(sys.argv[3])
    sources = json.load(open(sys.argv[4])) if len(sys.argv) > 4 else None
    import logging

    logging.disable(logging.CRITICAL)
    print(json.dumps(run_corpus(shard, nshards, limit, sources)))
