"""Delta debugging of a failing Python function at the AST level: delete
statements, unwrap compound statements, replace expressions by
sub-expressions or constants.  Deterministic, bounded by a call budget."""

from __future__ import annotations

import ast
import copy


def _suites(tree):
    for node in ast.walk(tree):
        for name in ("body", "orelse"):
            s = getattr(node, name, None)
            if isinstance(s, list) and (not s or isinstance(s[0], ast.stmt)):
                if isinstance(node, (ast.FunctionDef, ast.If, ast.While, ast.For)):
                    yield node, name, s


def _candidates(tree):
    """yields functions that mutate a deep copy of the tree; identified by
    (kind, index path) so they can be re-applied on a copy."""
    # statement deletion and unwrapping
    suites = list(_suites(tree))
    for si, (node, name, s) in enumerate(suites):
        for i, st in enumerate(s):
            yield ("del", si, i)
        for i, st in enumerate(s):
            if isinstance(st, (ast.If, ast.While, ast.For)):
                yield ("unwrap_body", si, i)
                if st.orelse:
                    yield ("unwrap_else", si, i)
                    yield ("drop_else", si, i)
    # expression simplification
    exprs = [n for n in ast.walk(tree) if isinstance(n, ast.expr) and not isinstance(n, (ast.Name, ast.Constant)) and not isinstance(getattr(n, "ctx", None), ast.Store)]
    for ei, n in enumerate(exprs):
        kids = [c for c in ast.iter_child_nodes(n) if isinstance(c, ast.expr) and not (isinstance(n, ast.Call) and c is n.func)]
        for ki in range(len(kids)):
            yield ("expr_child", ei, ki)
        yield ("expr_const", ei, 0)


def _apply(tree, cand):
    t = copy.deepcopy(tree)
    kind, a, b = cand
    if kind in ("del", "unwrap_body", "unwrap_else", "drop_else"):
        suites = list(_suites(t))
        if a >= len(suites):
            return None
        node, name, s = suites[a]
        if b >= len(s):
            return None
        st = s[b]
        if kind == "del":
            del s[b]
        elif kind == "unwrap_body":
            inner = [x for x in st.body if not isinstance(x, (ast.Break, ast.Continue))] if isinstance(st, (ast.While, ast.For)) else list(st.body)
            s[b : b + 1] = inner
        elif kind == "unwrap_else":
            s[b : b + 1] = list(st.orelse)
        elif kind == "drop_else":
            st.orelse = []
        if not s and name == "body":
            s.append(ast.Pass())
        return t
    exprs = [n for n in ast.walk(t) if isinstance(n, ast.expr) and not isinstance(n, (ast.Name, ast.Constant)) and not isinstance(getattr(n, "ctx", None), ast.Store)]
    if a >= len(exprs):
        return None
    target = exprs[a]
    if kind == "expr_child":
        kids = [c for c in ast.iter_child_nodes(target) if isinstance(c, ast.expr) and not (isinstance(target, ast.Call) and c is target.func)]
        if b >= len(kids):
            return None
        repl = kids[b]
    else:
        repl = ast.Constant(0)

    class R(ast.NodeTransformer):
        def generic_visit(self, node):
            for field, old in ast.iter_fields(node):
                if isinstance(old, list):
                    for i, x in enumerate(old):
                        if x is target:
                            old[i] = repl
                        elif isinstance(x, ast.AST):
                            self.generic_visit(x)
                elif old is target:
                    setattr(node, field, repl)
                elif isinstance(old, ast.AST):
                    self.generic_visit(old)
            return node

    R().generic_visit(t)
    return t


def shrink_source(src: str, still_fails, budget: int = 600) -> str:
    try:
        tree = ast.parse(src)
    except SyntaxError:
        return src
    calls = 0
    improved = True
    cur_src = src
    while improved and calls < budget:
        improved = False
        for cand in list(_candidates(tree)):
            t = _apply(tree, cand)
            if t is None:
                continue
            try:
                s2 = ast.unparse(ast.fix_missing_locations(t)) + "\n"
                compile(s2, "<shrink>", "exec")
            except Exception:
                continue
            if len(s2) >= len(cur_src):
                continue
            calls += 1
            ok = False
            try:
                ok = still_fails(s2)
            except Exception:
                ok = False
            if ok:
                tree = ast.parse(s2)
                cur_src = s2
                improved = True
                break
            if calls >= budget:
                break
    return cur_src
