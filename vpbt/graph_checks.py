"""Evaluation functions of the graph-level properties C01-C06, C16 on one
generated closed CFG (all stage prefixes)."""

from __future__ import annotations

from numba_scfg.core.datastructures.basic_block import (
    RegionBlock,
    SyntheticBranch,
)

from . import gen_graphs as gg
from . import models as M
from .core import debug_logging, default_recursion_limit, exc_sig, h64, library_raised, norm

STAGES3 = ("closed", "loop", "branch")


def build(g, stage, payload="plain", trees=None):
    """Returns (scfg, originals, exc).  exc is the library's exception if a
    stage driver raised."""
    if stage == "reload" and payload == "ast":
        stage = "levelwise"  # AST payloads cannot be written out (no registry entry)
    scfg = M.mk_scfg(g, payload, trees)
    originals = dict(scfg.graph)
    if payload == "ast":
        # remember the identity of every statement object (C05)
        originals["__tree_ids__"] = {k: [id(n) for n in b.tree] for k, b in scfg.graph.items()}
    try:
        if len(g) % 4 == 3 and len(g) <= 12:
            # a quarter of the (small) graphs runs under the configuration "debug logging on"
            with debug_logging():
                scfg = M.apply_stage(scfg, stage)
        elif len(g) >= 80:
            # large / deeply nested graphs: under the interpreter's default recursion limit
            with default_recursion_limit():
                scfg = M.apply_stage(scfg, stage)
        else:
            scfg = M.apply_stage(scfg, stage)
    except RecursionError as e:
        return scfg, originals, e
    except Exception as e:  # the library raised: C02's business
        if not library_raised(e):
            raise
        return scfg, originals, e
    return scfg, originals, None


def replay_obj(g, stage, payload="plain"):
    return dict(graph=gg.graph_to_json(g), stage=stage, payload=payload)


def stages_for(g, origin):
    # restructure() is the fourth public driver; alternate it in
    # and, for the other half, the same pipeline driven level by level through the drivers of the sub-graphs
    # the same pipeline driven level by level through the drivers of the sub-graphs, with a write/read between the
    # stages, or re-entered (restructure() after restructure_loop()) - one of the four per graph
    return STAGES3 + (("restructure", "levelwise", "reload", "reentrant")[h64(gg.gkey(g)) % 4],)


def has_synth_branch(flat):
    return any(isinstance(b, SyntheticBranch) for b in flat.blocks.values())


def has_nested_exiting(flat):
    return any(isinstance(r.subregion.graph.get(r.exiting), RegionBlock) for r in flat.regions.values())


def generic_eval(pid, oracle, payloads=("plain",), stages=None, on_raise=None):
    """oracle(g, scfg, originals, stage) -> (nontrivial: bool, info: dict)
    and raises models.Viol for a violated clause."""

    def evaluate(col, intg, g, origin):
        classes = gg.classify(intg)
        nontrivial = False
        payload = payloads[len(g) % len(payloads)]
        for stage in (("branch", stages_for(g, origin)[-1]) if stages == "full" else stages or stages_for(g, origin)):
            scfg, originals, exc = build(g, stage, payload)
            if exc is not None:
                if on_raise is not None:
                    on_raise(col, g, stage, payload, exc)
                else:
                    col.count("not_evaluated_stage_raised")
                continue
            col.count("stage_evaluations")
            try:
                nt, info = oracle(g, scfg, originals, stage)
                nontrivial = nontrivial or nt
                for k, v in info.items():
                    col.count(k, v)
            except M.Viol as v:
                col.fail(f"{pid}:{v.clause}", f"[{stage}] {v.msg}", replay_obj(g, stage, payload), len(g))
            except M.Inconclusive:
                col.count("inconclusive_state_cap")
        col.case(gg.gkey(g), len(g), nontrivial, sample=dict(graph=gg.graph_to_str(g), blocks=len(g), origin=origin, classes=classes), classes=classes + ["origin:" + origin])

    return evaluate


def generic_replay(pid, oracle, on_raise_sig=None):
    def replay(inp):
        g = gg.graph_from_json(inp["graph"])
        stage = inp.get("stage", "branch")
        payload = inp.get("payload", "plain")
        scfg, originals, exc = build(g, stage, payload)
        if exc is not None:
            if on_raise_sig:
                return [(on_raise_sig(exc), f"[{stage}] {type(exc).__name__}: {exc}")]
            return []
        try:
            oracle(g, scfg, originals, stage)
        except M.Viol as v:
            return [(f"{pid}:{v.clause}", f"[{stage}] {v.msg}")]
        except M.Inconclusive:
            pass
        return []

    return replay


# --------------------------------------------------------------------------
# generic shrinking of a failing graph (delta debugging on the named graph)


def shrink_graph(g, still_fails, budget=1500):
    """Greedy: drop a block / drop an edge, keep closedness, keep failing."""
    names = list(g)
    idx = {n: i for i, n in enumerate(names)}
    cur = {idx[k]: tuple(idx[t] for t in v) for k, v in g.items()}
    # entry must be index 0 for repair(); find it
    tg = {t for v in cur.values() for t in v}
    entry = [k for k in cur if k not in tg][0]
    if entry != 0:
        sw = {entry: 0, 0: entry}
        cur = {sw.get(k, k): tuple(sw.get(t, t) for t in v) for k, v in cur.items()}
        names[0], names[entry] = names[entry], names[0]
    calls = 0
    import os
    import time

    # the clock only bounds how small the replay file gets, never a verdict
    deadline = time.monotonic() + float(os.environ.get("VPBT_SHRINK_SECONDS", "45"))

    def named(c, nm):
        return {nm[i]: tuple(nm[t] for t in c[i]) for i in sorted(c)}

    improved = True
    while improved and calls < budget and time.monotonic() < deadline:
        improved = False
        cands = []
        for k in sorted(cur, reverse=True):
            if k == 0:
                continue
            c = {i: tuple(t for t in v if t != k) for i, v in cur.items() if i != k}
            cands.append(c)
        for k in sorted(cur):
            for j in range(len(cur[k])):
                c = dict(cur)
                c[k] = cur[k][:j] + cur[k][j + 1 :]
                cands.append(c)
        for c in cands:
            order = sorted(c)
            ren = {o: i for i, o in enumerate(order)}
            c2 = {ren[i]: tuple(ren[t] for t in c[i]) for i in order}
            if not gg.is_closed(c2):
                continue
            nm = [names[o] for o in order]
            calls += 1
            if still_fails(named(c2, nm)):
                cur, names = c2, nm
                improved = True
                break
            if calls >= budget or time.monotonic() >= deadline:
                break
    return named(cur, names)


def generic_shrink(replay_fn):
    def shrink(fail):
        inp = fail["replay"]
        if "graph" not in inp:
            return fail
        sig = fail["sig"]
        g = gg.graph_from_json(inp["graph"])
        if len(g) <= 4:
            return fail

        def still(g2):
            r = replay_fn(dict(inp, graph=gg.graph_to_json(g2)))
            return any(s == sig for s, _ in r)

        g2 = shrink_graph(g, still)
        if len(g2) < len(g):
            r = replay_fn(dict(inp, graph=gg.graph_to_json(g2)))
            msg = next(m for s, m in r if s == sig)
            fail = dict(fail, replay=dict(inp, graph=gg.graph_to_json(g2)), msg=msg, size=len(g2))
        return fail

    return shrink


# --------------------------------------------------------------------------
# oracles


def oracle_c01(g, scfg, originals, stage):
    flat = M.Flat(scfg)
    stats = {}
    s1, t1 = M.walk_flat(g, scfg, flat, stats)
    s2, t2 = M.walk_regions(g, scfg, stats)
    nt = has_synth_branch(flat) or has_nested_exiting(flat)
    return nt, dict(states=s1 + s2, transitions=t1 + t2)


def oracle_c03(g, scfg, originals, stage):
    flat = M.Flat(scfg)
    M.check_structure(scfg, flat, g)
    two_way = any(len(v) == 2 for v in g.values())
    cyc = any(len(c) > 1 or next(iter(c)) in g[next(iter(c))] for c in gg.sccs(g))
    return two_way and cyc, dict(regions=len(flat.regions))


def oracle_c04(g, scfg, originals, stage):
    flat = M.check_hierarchy(scfg)
    return flat.depth >= 3, dict(regions=len(flat.regions), max_depth_sum=flat.depth)


def oracle_c05(g, scfg, originals, stage):
    flat = M.Flat(scfg)
    originals = dict(originals)
    snap = originals.pop("__tree_ids__", None)
    M.check_conservation(g, scfg, originals, flat, snap)
    multi = 0
    for name, ss in g.items():
        if len(ss) == 2:
            new = flat.blocks[name]._jump_targets
            if new[0] != ss[0] and new[1] != ss[1]:
                multi += 1
    return multi > 0, dict(blocks_with_both_successors_renamed=multi)


def oracle_c06(g, scfg, originals, stage):
    flat = M.Flat(scfg)
    nb = M.check_tables(flat)
    stats = {}
    try:
        M.check_dataflow(flat, M.top_head(scfg), stats)
    except M.Viol as v:
        # after branch restructuring a path-insensitive analysis over-approximates (an arm that is only taken for one
        # value of a head's variable is merged with the other arms), so the static clause is asserted for the stages
        # before it and only counted afterwards; the valuation-exact exploration below decides those.
        if stage not in ("closed", "loop") and v.clause in ("V-must", "V-must-latch"):
            stats["static_must_overapprox"] = 1
        else:
            raise
    s1, t1 = M.walk_flat(g, scfg, flat, stats)
    variables = {b.variable for b in flat.blocks.values() if isinstance(b, SyntheticBranch)}
    return len(variables) >= 2, dict(states=s1, transitions=t1, branching_blocks=nb, stale_nonlatch_reads=stats.get("stale_nonlatch_reads", 0), range_may_excess=stats.get("range_may_excess", 0), static_must_overapprox=stats.get("static_must_overapprox", 0))


def oracle_c16(g, scfg, originals, stage):
    flat = M.Flat(scfg)
    M.check_iteration(scfg, flat)
    follows = M.check_view(scfg, "top")
    n = 1
    for rname, r in flat.regions.items():
        follows = M.check_view(r.subregion, rname) or follows
        n += 1
    kept_n = 0
    if stage in ("closed", "loop"):
        # a view object that is kept while the graph changes (the next stage runs) enumerates the graph as it then is
        kept = [("top", scfg, scfg.concealed_region_view)] + [(rn, r.subregion, r.subregion.concealed_region_view) for rn, r in flat.regions.items()]
        for _, _, v in kept:
            list(v)
        try:
            if stage == "closed":
                scfg.restructure_loop()
            else:
                scfg.restructure_branch()
        except Exception as e:
            if not library_raised(e):
                raise
            kept = []
        for label, sub, v in kept:
            try:
                old, new = list(v), list(sub.concealed_region_view)
            except Exception as e:
                if not library_raised(e):
                    raise
                raise M.Viol("I-view-kept", f"level {label}: a view object kept across the next stage raised {type(e).__name__}: {e}")
            if old != new or len(v) != len(new):
                raise M.Viol("I-view-kept", f"level {label}: a view object kept across the next stage enumerates {old[:6]}..., a fresh view of the same graph {new[:6]}...")
            kept_n += 1
    return follows, dict(views=n, kept_views=kept_n)
