"""Source-level pipelines and oracles shared by C07, C08, C10, C11, C12."""

from __future__ import annotations

import ast

from numba_scfg.core.datastructures.ast_transforms import (
    AST2SCFG,
    AST2SCFGTransformer,
    SCFG2AST,
)

from . import pyexec as X
from .core import lib_frame

ARG_POOL = [(1, 0), (0, 5), (3, 3), (None, 2), ([1, 2], "__scfg_sentinel__"), (-1, None)]


class Refused(Exception):
    pass


class Internal(Exception):
    def __init__(self, stage, exc):
        super().__init__(f"{stage}: {type(exc).__name__}: {exc}")
        self.stage = stage
        self.exc = exc
        self.sig = f"{stage}:{type(exc).__name__}@{lib_frame(exc)}"


def roundtrip(src: str):
    """source -> graph -> restructure -> source.  Returns (new_src, scfg).
    Raises Refused (explicit NotImplementedError) or Internal."""
    stage = "AST2SCFG"
    try:
        scfg = AST2SCFG(src)
        stage = "restructure"
        scfg.restructure()
        stage = "SCFG2AST"
        fdef = SCFG2AST(src, scfg)
        stage = "unparse"
        new_src = ast.unparse(ast.fix_missing_locations(fdef))
    except NotImplementedError as e:
        raise Refused(f"{stage}: {e}")
    except RecursionError as e:
        raise Internal(stage, e)
    except Exception as e:
        raise Internal(stage, e)
    return new_src, scfg, fdef


def compare_behaviour(fac_a, fac_b, arg_tuples, depth, max_runs):
    """Returns (stats, mismatch|None)."""
    tot = dict(runs=0, inconclusive=0, complete=0)
    for args in arg_tuples:
        r = X.explore(fac_a, fac_b, args, max_depth=depth, max_runs=max_runs)
        for k in tot:
            tot[k] += r[k]
        if r["mismatch"]:
            return tot, r["mismatch"]
    return tot, None


def frontend_blocks(src: str, prune: bool):
    """Front-end CFG as {name: (instructions, jump_targets)} + the transformer."""
    t = AST2SCFGTransformer(src, prune=prune)
    cfg = t.transform_to_ASTCFG()
    return {k: (list(b.instructions), list(b.jump_targets)) for k, b in cfg.items()}, t


def mismatch_tags(feats: set) -> str:
    """structural tag of a behavioural mismatch: the recorded-finding features
    the program carries (sorted), or 'plain'."""
    rel = sorted(feats & {"boolop_in_operand", "boolop_nested_operand", "loopvar_live", "dead_code_after_jump", "empty_arms", "loop_first", "nonname_test", "shadow_builtins"})
    return "+".join(rel) if rel else "plain"


def stored_names(src: str) -> set:
    return {n.id for n in ast.walk(ast.parse(src)) if isinstance(n, ast.Name) and isinstance(n.ctx, ast.Store)}


def pruned_local_symptom(src, new_src, mm) -> bool:
    """The one recorded root cause 'a name assigned only in unreachable code
    stops being a local': original raises UnboundLocalError, regenerated code
    raises NameError after the same calls, and some name stored in the
    original is stored nowhere in the regenerated source."""
    a, b = mm["a"], mm["b"]
    if a["outcome"] != ["exc", "UnboundLocalError"] or b["outcome"] != ["exc", "NameError"]:
        return False
    if a["calls"] != b["calls"] or a["ncalls"] != b["ncalls"]:
        return False
    return bool(stored_names(src) - stored_names(new_src))
