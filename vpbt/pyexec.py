"""M7: Python-level executors.

(a) run a function under a recording environment with a decision tape;
(b) CFG interpreter: compile a front-end CFG of AST blocks into one Python
    function that dispatches over block names (same parameters, so locals stay
    function locals and an unbound read raises UnboundLocalError as in the
    original);
(c) run regenerated source.

Observation = (outcome kind, repr of return value / exception type name,
full external-call trace).
"""

from __future__ import annotations

import ast
import copy
import warnings

warnings.filterwarnings("ignore", category=SyntaxWarning)
import sys

LOG_CAP = 2000
LINE_CAP = 4000
BIG = 10**60


class TapeExhausted(BaseException):
    pass


class Budget(BaseException):
    pass


class Box:
    def __init__(self, v):
        self.v = v

    def __repr__(self):
        return f"box({self.v!r})"


def make_env(tape, log):
    pos = [0]

    def note(x):
        if len(log) >= LOG_CAP:
            raise Budget()
        log.append(x)

    def bit():
        if pos[0] >= len(tape):
            raise TapeExhausted()
        v = tape[pos[0]]
        pos[0] += 1
        return v

    def d(t):
        note(("d", t))
        return bit()

    def e(t, *vs):
        note(("e", t, tuple(_r(v) for v in vs)))
        return vs[0] if vs else None

    def it(t):
        note(("it", t))
        return _It(t)

    class _It:
        def __init__(self, t):
            self.t = t
            self.n = 0

        def __iter__(self):
            note(("iter", self.t))
            return self

        def __next__(self):
            note(("next", self.t))
            if not bit():
                raise StopIteration
            self.n += 1
            return self.n

    return dict(d=d, e=e, it=it, box=Box, __builtins__=__builtins__)


def _r(v):
    try:
        return repr(v)
    except Exception as ex:  # noqa
        return f"<repr raised {type(ex).__name__}>"


def run_func(fn_factory, tape, args):
    """fn_factory(env) -> callable.  Returns (outcome, log)."""
    log = []
    env = make_env(tape, log)
    fn = fn_factory(env)
    args = copy.deepcopy(args)  # mutable arguments must not leak between runs
    cnt = [0]

    def tr(frame, ev, arg):
        if ev == "line":
            cnt[0] += 1
            if cnt[0] > LINE_CAP:
                raise Budget()
            # deterministic guard against value blow-up (x *= x in a loop)
            for v in frame.f_locals.values():
                t = type(v)
                if t is int:
                    if v > BIG or v < -BIG:
                        raise Budget()
                elif t is str or t is list or t is tuple:
                    if len(v) > 100000:
                        raise Budget()
        return tr

    old = sys.gettrace()
    try:
        sys.settrace(tr)
        try:
            v = fn(*args)
        finally:
            sys.settrace(old)
        out = ("ret", _r(v))
    except Budget:
        out = ("budget",)
    except TapeExhausted:
        out = ("tape",)
    except RecursionError:
        out = ("budget",)
    except Exception as ex:
        out = ("exc", type(ex).__name__)
    return out, log


def factory_from_source(src, name):
    code = compile(src, f"<{name}>", "exec")

    def fac(env):
        ns = dict(env)
        exec(code, ns)
        return ns[name]

    return fac


def explore(fac_a, fac_b, args, max_depth=8, max_runs=48):
    """Path-exhaustive comparison: extend a tape only if the run exhausted it.
    Returns dict(runs, mismatch | None, inconclusive, complete_paths)."""
    todo = [()]
    runs = 0
    incon = 0
    complete = 0
    while todo:
        tape = todo.pop()
        if runs >= max_runs:
            break
        runs += 1
        oa, la = run_func(fac_a, tape, args)
        ob, lb = run_func(fac_b, tape, args)
        if oa[0] == "budget" or ob[0] == "budget":
            incon += 1
            continue
        if oa != ob or la != lb:
            return dict(runs=runs, inconclusive=incon, complete=complete, mismatch=dict(tape=list(tape), args=_r(args), a=_obs(oa, la), b=_obs(ob, lb)))
        if oa[0] == "tape":
            if len(tape) < max_depth:
                todo.append(tape + (1,))
                todo.append(tape + (0,))
        else:
            complete += 1
    return dict(runs=runs, inconclusive=incon, complete=complete, mismatch=None)


def _obs(o, log):
    # first difference is what matters; keep the report short
    return dict(outcome=list(o), calls=[list(map(str, x)) for x in log[-12:]], ncalls=len(log))


# --------------------------------------------------------------------------
# (b) CFG interpreter


class CFGShape(Exception):
    """the front-end graph is not interpretable as the property describes"""


def cfg_interpreter_source(blocks, entry, argspec, name="cfg_f"):
    """blocks: name -> (instructions: list[ast.AST], jump_targets: list[str]).
    Run the block's statements; with two successors evaluate its last
    expression and take the first if true, else the second; stop at a return."""
    lines = [f"def {name}({argspec}):", f"    __pc__ = {entry!r}", "    while True:"]
    first = True
    for bname, (instrs, jts) in blocks.items():
        kw = "if" if first else "elif"
        first = False
        lines.append(f"        {kw} __pc__ == {bname!r}:")
        body = []
        instrs = list(instrs)
        test = None
        if len(jts) == 2:
            if not instrs:
                raise CFGShape(f"two-way block {bname} is empty")
            last = instrs.pop()
            if isinstance(last, ast.Expr):
                test = last.value
            elif isinstance(last, ast.expr):
                test = last
            else:
                raise CFGShape(f"two-way block {bname} does not end in an expression but in {type(last).__name__}")
        for ins in instrs:
            if isinstance(ins, ast.expr):
                ins = ast.Expr(ins)
            if isinstance(ins, (ast.Break, ast.Continue)):
                continue  # control is encoded in the edges
            txt = ast.unparse(ins)
            body.extend(txt.split("\n"))
        if len(jts) == 2:
            body.append(f"__pc__ = {jts[0]!r} if ({ast.unparse(test)}) else {jts[1]!r}")
        elif len(jts) == 1:
            if instrs and isinstance(instrs[-1], ast.Return):
                pass  # a return ends the run; the edge is unused
            else:
                body.append(f"__pc__ = {jts[0]!r}")
        elif len(jts) == 0:
            if not (instrs and isinstance(instrs[-1], ast.Return)):
                body.append("raise __CFGFallOff__()")
        else:
            raise CFGShape(f"block {bname} has {len(jts)} targets")
        if not body:
            body = ["pass"]
        lines.extend("            " + b for b in body)
    lines.append("        else:")
    lines.append("            raise __CFGBadTarget__(__pc__)")
    return "\n".join(lines) + "\n"


class CFGFallOff(Exception):
    pass


class CFGBadTarget(Exception):
    pass


def factory_from_cfg(blocks, entry, argspec="a, b"):
    src = cfg_interpreter_source(blocks, entry, argspec)
    code = compile(src, "<cfg>", "exec")

    def fac(env):
        ns = dict(env)
        ns["__CFGFallOff__"] = CFGFallOff
        ns["__CFGBadTarget__"] = CFGBadTarget
        exec(code, ns)
        return ns["cfg_f"]

    return fac, src
