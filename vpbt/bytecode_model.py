"""M8: bytecode ground truth from the running interpreter's own metadata
(dis.get_instructions + opcode.hasjrel/hasjabs), and the standard-library
corpus G1c/G5(i).  Nothing of the library under test is used here."""

from __future__ import annotations

import dis
import importlib
import opcode
import types

JUMPS = set(opcode.hasjrel) | set(opcode.hasjabs)

# instructions after which control never continues with the next instruction
# (table written from the CPython documentation of dis; validated dynamically
# by the tracing leg of C09)
NOFALL = {
    "JUMP_FORWARD",
    "JUMP_BACKWARD",
    "JUMP_BACKWARD_NO_INTERRUPT",
    "JUMP_ABSOLUTE",
    "JUMP_NO_INTERRUPT",
    "JUMP",
    "RETURN_VALUE",
    "RETURN_CONST",
    "RAISE_VARARGS",
    "RERAISE",
}
RETURNS = {"RETURN_VALUE", "RETURN_CONST"}
EXCLUDED_OPS = {"RAISE_VARARGS", "RERAISE", "YIELD_VALUE", "RETURN_GENERATOR", "SEND", "SETUP_FINALLY", "SETUP_WITH", "SETUP_CLEANUP", "POP_EXCEPT", "PUSH_EXC_INFO", "BEFORE_WITH", "CHECK_EXC_MATCH"}

CO_GENERATOR, CO_COROUTINE, CO_ITERABLE_COROUTINE, CO_ASYNC_GENERATOR = 0x20, 0x80, 0x100, 0x200


def eligible(code: types.CodeType) -> bool:
    """domain of C09: no exception handlers, raises or suspension points."""
    if code.co_flags & (CO_GENERATOR | CO_COROUTINE | CO_ITERABLE_COROUTINE | CO_ASYNC_GENERATOR):
        return False
    if getattr(code, "co_exceptiontable", b""):
        return False
    for i in dis.get_instructions(code):
        if i.opname in EXCLUDED_OPS:
            return False
    return True


def instructions(code):
    return list(dis.get_instructions(code))


def dis_cfg(code):
    """Own CFG: list of (first_offset, last_offset, [successor first_offsets])
    in offset order; fall-through first, then jump target."""
    ins = instructions(code)
    offs = [i.offset for i in ins]
    nxt = dict(zip(offs, offs[1:]))
    leaders = {offs[0]}
    for i in ins:
        isj = i.opcode in JUMPS
        if isj:
            leaders.add(i.argval)
        if (isj or i.opname in NOFALL) and i.offset in nxt:
            leaders.add(nxt[i.offset])
    blocks = []
    cur = None
    for i in ins:
        if i.offset in leaders:
            cur = [i.offset, i.offset, []]
            blocks.append(cur)
        cur[1] = i.offset
    byoff = {i.offset: i for i in ins}
    for b in blocks:
        li = byoff[b[1]]
        succ = []
        if li.opname not in NOFALL:
            if li.offset in nxt:
                succ.append(nxt[li.offset])
        if li.opcode in JUMPS:
            succ.append(li.argval)
        b[2] = succ
    return blocks


def shape_of(code):
    """int graph (entry 0) of a code object, or None when it is not a closed
    CFG with <= 2 distinct successors."""
    from .gen_graphs import is_closed, reach_from

    blocks = dis_cfg(code)
    idx = {b[0]: k for k, b in enumerate(blocks)}
    succ = {}
    for k, b in enumerate(blocks):
        ss = tuple(idx[t] for t in b[2])
        if len(set(ss)) != len(ss) or len(ss) > 2:
            return None
        succ[k] = ss
    live = reach_from(succ, 0)
    if len(live) != len(succ):
        order = sorted(live)
        ren = {o: k for k, o in enumerate(order)}
        succ = {ren[i]: tuple(ren[t] for t in succ[i]) for i in order}
    return succ if is_closed(succ) else None


MODULES = [
    "abc", "argparse", "ast", "base64", "bisect", "bz2", "calendar", "cmd", "code", "codecs", "collections",
    "colorsys", "compileall", "configparser", "contextlib", "copy", "csv", "dataclasses", "datetime", "decimal",
    "difflib", "dis", "email.message", "email.utils", "email.header", "enum", "fileinput", "fnmatch", "fractions",
    "ftplib", "functools", "getopt", "gettext", "glob", "gzip", "hashlib", "heapq", "hmac", "html.parser",
    "http.client", "http.cookies", "imaplib", "inspect", "ipaddress", "json.decoder", "json.encoder", "keyword",
    "linecache", "locale", "logging", "lzma", "mailbox", "mimetypes", "netrc", "ntpath", "numbers", "opcode",
    "operator", "optparse", "os", "pathlib", "pdb", "pickle", "pickletools", "pkgutil", "platform", "plistlib",
    "poplib", "posixpath", "pprint", "profile", "pstats", "queue", "quopri", "random", "re", "reprlib", "sched",
    "secrets", "selectors", "shelve", "shlex", "shutil", "smtplib", "socket", "socketserver", "sre_compile",
    "sre_parse", "ssl", "stat", "statistics", "string", "stringprep", "struct", "subprocess", "symtable",
    "sysconfig", "tabnanny", "tarfile", "tempfile", "textwrap", "threading", "timeit", "token", "tokenize",
    "trace", "traceback", "types", "typing", "unittest.case", "unittest.mock", "urllib.parse", "urllib.request",
    "uuid", "warnings", "wave", "weakref", "xml.dom.minidom", "xml.etree.ElementTree", "zipfile", "zoneinfo",
]


def _codes_of(code, out, seen):
    if id(code) in seen:
        return
    seen.add(id(code))
    out.append(code)
    for c in code.co_consts:
        if isinstance(c, types.CodeType):
            _codes_of(c, out, seen)


def corpus_codes(shard=0, nshards=1, modules=None):
    """Deterministic list of (qualified label, code object) of functions of a
    fixed standard-library module list (nested code objects included)."""
    out = []
    for mi, m in enumerate(modules or MODULES):
        if mi % nshards != shard:
            continue
        try:
            mod = importlib.import_module(m)
        except Exception:
            continue
        codes: list = []
        seen: set = set()
        names = sorted(vars(mod))
        for nm in names:
            obj = vars(mod)[nm]
            fns = []
            if isinstance(obj, types.FunctionType) and obj.__module__ == mod.__name__:
                fns.append(obj)
            elif isinstance(obj, type) and obj.__module__ == mod.__name__:
                for k in sorted(vars(obj)):
                    v = vars(obj)[k]
                    if isinstance(v, (staticmethod, classmethod)):
                        v = v.__func__
                    if isinstance(v, property):
                        v = v.fget
                    if isinstance(v, types.FunctionType):
                        fns.append(v)
            for f in fns:
                _codes_of(f.__code__, codes, seen)
        for c in codes:
            out.append((f"{m}:{c.co_qualname if hasattr(c, 'co_qualname') else c.co_name}:{c.co_firstlineno}", c))
    return out


def corpus_function_sources(shard=0, nshards=1, modules=None):
    """(label, dedented source) of module-level functions and methods of the
    fixed module list whose source is available."""
    import inspect
    import textwrap

    out = []
    for mi, m in enumerate(modules or MODULES):
        if mi % nshards != shard:
            continue
        try:
            mod = importlib.import_module(m)
        except Exception:
            continue
        fns = []
        for nm in sorted(vars(mod)):
            obj = vars(mod)[nm]
            if isinstance(obj, types.FunctionType) and obj.__module__ == mod.__name__:
                fns.append((nm, obj))
            elif isinstance(obj, type) and obj.__module__ == mod.__name__:
                for k in sorted(vars(obj)):
                    v = vars(obj)[k]
                    if isinstance(v, (staticmethod, classmethod)):
                        v = v.__func__
                    if isinstance(v, types.FunctionType):
                        fns.append((f"{nm}.{k}", v))
        for nm, f in fns:
            try:
                src = textwrap.dedent(inspect.getsource(f))
            except Exception:
                continue
            out.append((f"{m}:{nm}", src))
    return out
