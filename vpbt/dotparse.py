"""M9: parser for the subset of DOT that the `graphviz` package emits for
Digraph objects: quoted strings (spanning lines, \\" escapes), bare ids,
`subgraph name { ... }`, node statements, edge statements `a -> b`, attribute
lists `[k=v ...]` and graph attribute statements `k=v k=v`."""

from __future__ import annotations

import re


class DotError(Exception):
    pass


_tok = re.compile(
    r"""\s*(?:
        (?P<str>"(?:\\.|[^"\\])*")
      | (?P<arrow>->)
      | (?P<punct>[{}\[\]=;,])
      | (?P<id>[^\s{}\[\]=;,"]+)
    )""",
    re.X | re.S,
)


def tokenize(src: str):
    pos = 0
    out = []
    n = len(src)
    while pos < n:
        m = _tok.match(src, pos)
        if not m:
            if src[pos:].strip() == "":
                break
            raise DotError(f"cannot tokenize at {pos}: {src[pos:pos+30]!r}")
        pos = m.end()
        if m.group("str") is not None:
            s = m.group("str")[1:-1]
            s = s.replace('\\"', '"')
            out.append(("id", s))
        elif m.group("arrow"):
            out.append(("arrow", "->"))
        elif m.group("punct"):
            out.append(("p", m.group("punct")))
        else:
            out.append(("id", m.group("id")))
    return out


class Cluster:
    def __init__(self, name):
        self.name = name
        self.attrs = {}
        self.nodes = []  # (name, attrs)
        self.edges = []  # (src, dst, attrs)
        self.subs = []

    def walk(self):
        yield self
        for s in self.subs:
            yield from s.walk()


def parse(src: str) -> Cluster:
    toks = tokenize(src)
    i = 0

    def peek(k=0):
        return toks[i + k] if i + k < len(toks) else (None, None)

    def take(kind=None, val=None):
        nonlocal i
        t = peek()
        if t[0] is None or (kind and t[0] != kind) or (val and t[1] != val):
            raise DotError(f"expected {kind} {val}, got {t} at token {i}")
        i += 1
        return t[1]

    def attrlist():
        d = {}
        take("p", "[")
        while peek() != ("p", "]"):
            k = take("id")
            take("p", "=")
            v = take("id")
            d[k] = v
            if peek() in (("p", ","), ("p", ";")):
                take("p")
        take("p", "]")
        return d

    def body(c: Cluster):
        nonlocal i
        take("p", "{")
        while peek() != ("p", "}"):
            t = peek()
            if t[0] is None:
                raise DotError("unexpected end")
            if t == ("p", ";"):
                take("p")
                continue
            if t == ("id", "subgraph"):
                take("id")
                name = take("id") if peek()[0] == "id" else ""
                sub = Cluster(name)
                body(sub)
                c.subs.append(sub)
                continue
            a = take("id")
            if peek() == ("p", "="):
                take("p")
                c.attrs[a] = take("id")
                continue
            if peek() == ("arrow", "->"):
                take("arrow")
                b = take("id")
                attrs = attrlist() if peek() == ("p", "[") else {}
                c.edges.append((a, b, attrs))
                continue
            attrs = attrlist() if peek() == ("p", "[") else {}
            c.nodes.append((a, attrs))
        take("p", "}")

    kw = take("id")
    if kw not in ("digraph", "graph", "strict"):
        raise DotError(f"not a graph: {kw}")
    if kw == "strict":
        take("id")
    name = ""
    if peek()[0] == "id":
        name = take("id")
    root = Cluster(name)
    body(root)
    if i != len(toks):
        raise DotError("trailing tokens")
    return root
