"""G1: closed control-flow graphs.

A graph is an ordered dict  {name: (succ, ...)}  (entry first) with ordered,
pairwise distinct successors, at most two per block; exactly one block without
predecessors (the entry); every block reachable from it and able to reach a
block without successors.  (DESIGN.md section 9.)

* enum_labelled(n)   all labelled closed CFGs over nodes 0..n-1 (entry 0)
* enum_canonical(n)  one representative per isomorphism class of rooted ordered
                     graphs (BFS numbering following successor order)
* closed_cfgs(max_n) Hypothesis strategy: construction + deterministic repair,
                     with shape-biased modes
* classify(g)        own classifier (SCCs, entries/exits/latches per SCC,
                     reducibility by T1/T2 collapse)
* restyle(g, style, perm)  name styles
"""

from __future__ import annotations

import itertools

from hypothesis import strategies as st

# --------------------------------------------------------------------------
# int graphs: dict[int, tuple[int, ...]]


def preds_of(succ):
    preds = {i: [] for i in succ}
    for i, ss in succ.items():
        for s in ss:
            preds[s].append(i)
    return preds


def reach_from(succ, start):
    seen = {start}
    st_ = [start]
    while st_:
        x = st_.pop()
        for s in succ[x]:
            if s not in seen:
                seen.add(s)
                st_.append(s)
    return seen


def can_reach_exit(succ):
    preds = preds_of(succ)
    rs = {i for i, ss in succ.items() if not ss}
    st_ = list(rs)
    while st_:
        x = st_.pop()
        for p in preds[x]:
            if p not in rs:
                rs.add(p)
                st_.append(p)
    return rs


def is_closed(succ, entry=0) -> bool:
    preds = preds_of(succ)
    if preds[entry]:
        return False
    for i in succ:
        if i != entry and not preds[i]:
            return False
    for ss in succ.values():
        if len(ss) > 2 or len(set(ss)) != len(ss):
            return False
    if len(reach_from(succ, entry)) != len(succ):
        return False
    return len(can_reach_exit(succ)) == len(succ)


def choices(n):
    nodes = range(1, n)
    return [()] + [(a,) for a in nodes] + [(a, b) for a in nodes for b in nodes if a != b]


def enum_labelled(n, shard=0, nshards=1):
    """All labelled closed CFGs with n blocks; sharded by index of the raw
    candidate (deterministic, lexicographic)."""
    ch = choices(n)
    if n == 1:
        if shard == 0:
            yield {0: ()}
        return
    ch0 = [c for c in ch if c]  # entry needs a successor when n > 1
    k = 0
    for first in ch0:
        for rest in itertools.product(ch, repeat=n - 1):
            k += 1
            if k % nshards != shard:
                continue
            succ = {0: first}
            for i, c in enumerate(rest):
                succ[i + 1] = c
            if is_closed(succ):
                yield succ


def count_labelled_candidates(n):
    ch = len(choices(n))
    return (ch - 1) * ch ** (n - 1) if n > 1 else 1


def enum_canonical(n, shard=0, nshards=1):
    """Rooted ordered graphs with n nodes, all reachable from 0, numbered in
    BFS discovery order following successor order; filtered to closed ones.
    Sharded by the index of the sub-tree below the first three choices."""
    ctr = [0]

    def rec(i, succ, maxd):
        # node i chooses its successors; discovered so far: 0..maxd
        if i == min(3, n) and nshards > 1:
            ctr[0] += 1
            if ctr[0] % nshards != shard:
                return
        if i == n:
            if maxd == n - 1:
                yield dict(succ)
            return
        if i > maxd:
            return  # node i not discovered by earlier nodes: unreachable
        opts = []
        # arity 0
        opts.append(((), maxd))
        cand1 = [t for t in range(1, min(maxd + 1, n - 1) + 1)]
        for a in cand1:
            if a > maxd + 1:
                continue
            m1 = max(maxd, a)
            opts.append(((a,), m1))
            for b in range(1, min(m1 + 1, n - 1) + 1):
                if b == a or b > m1 + 1:
                    continue
                opts.append(((a, b), max(m1, b)))
        for ss, m in opts:
            succ[i] = ss
            yield from rec(i + 1, succ, m)
        succ.pop(i, None)

    for g in rec(0, {}, 0):
        if is_closed(g):
            yield g


def repair(n, raw):
    """raw: dict[int, list[int]] over 0..n-1 with arbitrary targets.  Returns
    a closed CFG (renumbered, entry 0) deterministically."""
    succ = {}
    for i in range(n):
        ss = []
        for t in raw.get(i, ()):
            if t != 0 and 0 <= t < n and t not in ss and len(ss) < 2:
                ss.append(t)
        succ[i] = ss
    while True:
        live = reach_from(succ, 0)
        succ = {i: [t for t in ss if t in live] for i, ss in succ.items() if i in live}
        ok = can_reach_exit(succ)
        bad = [i for i in succ if i not in ok]
        if not bad:
            break
        # turn the trapped block that is last in numbering into an exit
        succ[max(bad)] = []
    order = sorted(succ)
    ren = {o: k for k, o in enumerate(order)}
    return {ren[i]: tuple(ren[t] for t in succ[i]) for i in order}


# --------------------------------------------------------------------------
# Hypothesis strategies

_K = [1, 2, 2, 0, 1, 2]
MODES = ["uniform", "local", "motif", "structured", "dense", "compose", "compose", "nests", "wide"]

_LIB = None


def _library():
    """building blocks of the compose mode: ALL closed CFGs with 2, 3 and 4 blocks (the exhaustively enumerated small
    scope) - so every small shape occurs as a part of a larger graph, nested in and followed by every other.  Graphs
    with a self loop are listed once, all others three times (self loops would otherwise dominate)."""
    global _LIB
    if _LIB is None:
        _LIB = []
        for n in (2, 3, 4):
            for g in enum_labelled(n):
                _LIB.extend([g] if any(i in ss for i, ss in g.items()) else [g, g, g])
    return _LIB


def substitute(g, v, h, how):
    """replace block v of g by the closed CFG h: arcs into v enter h at its entry; the exits of h take over v's
    successors (how[j] selects, for the j-th exit, all of them or one of them).  Returns raw successor lists with the
    entry numbered 0."""
    off = max(g) + 1
    hid = {i: off + i for i in h}
    ent = hid[0]
    vs = [ent if t == v else t for t in g[v]]
    raw = {}
    for u, ss in g.items():
        if u != v:
            raw[u] = [ent if t == v else t for t in ss]
    exits = [i for i in sorted(h) if not h[i]]
    for i, ss in h.items():
        raw[hid[i]] = [hid[t] for t in ss]
    for j, e in enumerate(exits):
        if vs:
            k = how[j % len(how)]
            raw[hid[e]] = list(vs) if k == 0 or len(vs) == 1 else [vs[(j + k) % len(vs)]]
    first = ent if v == 0 else 0
    order = [first] + sorted(k for k in raw if k != first)
    ren = {o: i for i, o in enumerate(order)}
    return {ren[u]: [ren[t] for t in raw[u]] for u in order}


@st.composite
def loopy_cfgs(draw):
    """one loop with several exits to DISTINCT blocks (2-4), optionally a second entry, several latches; the exit
    blocks return, meet in a join or fall into one another (a loop exit landing in a sibling)."""
    k = draw(st.integers(2, 5))
    m = draw(st.integers(2, min(4, k + 1)))
    raw = {0: [1]}
    body = list(range(1, k + 1))
    for i in body:
        raw[i] = [i + 1] if i < k else [1]
    exits = [k + 1 + j for j in range(m)]
    join = k + 1 + m
    hosts = draw(st.lists(st.sampled_from(body), min_size=m, max_size=m, unique=True)) if m <= k else body + [body[-1]]
    for j, hst in enumerate(hosts[:m]):
        if len(raw[hst]) < 2:
            if draw(st.booleans()):
                raw[hst].append(exits[j])
            else:
                raw[hst].insert(0, exits[j])
    for j, x in enumerate(exits):
        r = draw(st.integers(0, 3))
        raw[x] = [] if r == 0 else [join] if r in (1, 2) else [exits[(j + 1) % m]]
    raw[join] = []
    if draw(st.integers(0, 2)) == 0 and k >= 2:
        raw[0] = [1, draw(st.sampled_from(body[1:]))]  # second entry: two headers
    if draw(st.integers(0, 2)) == 0:
        b = draw(st.sampled_from(body))
        if len(raw[b]) < 2 and 1 not in raw[b]:
            raw[b].append(1)  # another latch
    return repair(join + 1, raw)


@st.composite
def composed_cfgs(draw, max_n=14):
    lib = _library()
    g = lib[draw(st.integers(0, len(lib) - 1))] if draw(st.integers(0, 3)) else draw(loopy_cfgs())
    for _ in range(draw(st.integers(1, 4))):
        if len(g) >= max_n:
            break
        h = lib[draw(st.integers(0, len(lib) - 1))] if draw(st.integers(0, 2)) else draw(loopy_cfgs())
        v = draw(st.integers(0, len(g) - 1))
        v = sorted(g)[v]
        how = [draw(st.integers(0, 2)) for _ in range(3)]
        raw = substitute(g, v, h, how)
        g = repair(len(raw), raw)
    # cross edges between the parts (exits of an inner structure into a sibling or an outer one, second entries)
    raw = {i: list(ss) for i, ss in g.items()}
    n = len(raw)
    for _ in range(draw(st.integers(0, 3))):
        u = draw(st.integers(0, n - 1))
        t = draw(st.integers(1, n - 1)) if n > 1 else 0
        if len(raw[u]) < 2 and t not in raw[u] and t != 0:
            if draw(st.booleans()):
                raw[u].append(t)
            else:
                raw[u].insert(0, t)
    return repair(n, raw)


@st.composite
def closed_cfgs(draw, max_n=14, min_n=3, modes=MODES):
    mode = draw(st.sampled_from(modes))
    if mode == "structured":
        return draw(structured_cfgs(max_n))
    if mode == "compose":
        return draw(composed_cfgs(max_n))
    if mode == "nests":
        return draw(nest_cfgs())
    if mode == "wide":
        return draw(wide_loop_cfgs())
    n = draw(st.integers(min_n, max_n))
    raw = {i: [] for i in range(n)}
    # spanning skeleton: every block gets a predecessor among earlier blocks
    width = 1 if mode == "local" else draw(st.integers(1, 4))
    for i in range(1, n):
        p = draw(st.integers(max(0, i - width), i - 1))
        while p < i and len(raw[p]) >= 2:
            p += 1
        if p < i:
            raw[p].append(i)
    # extra edges (forward, backward, self) where there is capacity
    for i in range(n):
        while len(raw[i]) < 2:
            a = draw(st.integers(0, 5))
            if mode == "dense":
                a = 0 if a < 5 else 5
            if a >= 3:
                break
            if mode == "local":
                t = min(max(i + draw(st.integers(-3, 4)), 1), n - 1)
            else:
                t = draw(st.integers(1, n - 1))
            if t in raw[i]:
                break
            if a == 2:
                raw[i].insert(0, t)
            else:
                raw[i].append(t)
    if mode == "motif" and n >= 5:
        for _ in range(draw(st.integers(1, 3))):
            kind = draw(st.sampled_from(["irreducible", "selfloop", "multiexit", "multilatch", "sibling", "sharedheader"]))
            a = draw(st.integers(1, n - 4))
            b, c, d = a + 1, a + 2, a + 3
            x = draw(st.integers(1, n - 1))
            y = draw(st.integers(1, n - 1))
            if kind == "irreducible":
                raw[a] = [b, c]
                raw[b] = [c, x]
                raw[c] = [b, y]
            elif kind == "selfloop":
                raw[a] = [a, x]
            elif kind == "multiexit":
                raw[a] = [b]
                raw[b] = [c, x]
                raw[c] = [a, y]
            elif kind == "multilatch":
                raw[a] = [b, c]
                raw[b] = [a, x]
                raw[c] = [a, y]
            elif kind == "sibling":
                raw[a] = [b, c]
                raw[b] = [d, x]
                raw[c] = [d]
                raw[d] = [y]
                if x not in (a, b, c, d):
                    raw[x] = [d]
            elif kind == "sharedheader":
                raw[a] = [b, x]
                raw[b] = [a, c]
                raw[c] = [a, y]
    return repair(n, raw)


@st.composite
def multiway_graphs(draw, max_n=9, max_deg=6):
    """flat block graphs whose blocks have up to max_deg ordered distinct successors (what synthetic heads / exit
    branches of many-way loops look like), one entry, every block reachable from it; named {str: (str, ...)}"""
    n = draw(st.integers(2, max_n))
    g = {i: [] for i in range(n)}
    for i in range(1, n):  # spanning skeleton
        p = draw(st.integers(0, i - 1))
        g[p].append(i)
    dense = draw(st.booleans())  # half of the graphs: (almost) every block is many-way
    for i in range(n):
        k = draw(st.sampled_from([3, 4, 5, 6, 6] if dense else [0, 0, 1, 2, 3, 4, 5, 6]))
        for _ in range(k):
            if len(g[i]) >= max_deg:
                break
            t = draw(st.integers(1, n - 1))
            if t not in g[i]:
                if draw(st.booleans()):
                    g[i].append(t)
                else:
                    g[i].insert(0, t)
    return {str(i): tuple(str(t) for t in g[i]) for i in range(n)}


_stmt_leaf = st.sampled_from(["S", "S", "B", "C", "R"])


def _stmts(depth):
    if depth <= 0:
        return st.lists(_stmt_leaf, min_size=1, max_size=3)
    sub = st.deferred(lambda: _stmts(depth - 1))
    return st.lists(
        st.one_of(
            _stmt_leaf,
            st.tuples(st.just("if"), sub, sub),
            st.tuples(st.just("if"), sub, st.just([])),
            st.tuples(st.just("while"), sub),
            st.tuples(st.just("whileelse"), sub, sub),
            st.tuples(st.just("dowhile"), sub),
            st.tuples(st.just("dowhile_bf"), sub),
        ),
        min_size=1,
        max_size=4,
    )


def contract(g, keep=()):
    """bypass pass-through blocks (one successor, not a self loop): every arc into such a block goes to its successor
    instead, unless that would give the predecessor the same target twice.  What remains has no empty join / exit
    blocks: a loop then leaves directly to the continuation of the construct around it, as in real code."""
    g = {k: list(v) for k, v in g.items()}
    changed = True
    while changed:
        changed = False
        for v in sorted(g):
            if v == 0 or v in keep or len(g[v]) != 1 or g[v][0] == v:
                continue
            w = g[v][0]
            preds = [u for u in g if v in g[u]]
            if not preds or any(w in g[u] for u in preds):
                continue
            for u in preds:
                g[u] = [w if t == v else t for t in g[u]]
            del g[v]
            changed = True
            break
    order = sorted(g)
    ren = {o: i for i, o in enumerate(order)}
    return repair(len(order), {ren[u]: [ren[t] for t in g[u]] for u in order})


@st.composite
def wide_loop_cfgs(draw):
    """one loop with 3-5 headers AND 3-5 distinct exits: a binary dispatch tree delivers 3-7 entry arcs to the headers
    (some header is entered by two arcs), the loop is a ring through the headers and up to 3 more blocks, exits leave
    from headers and other ring blocks to distinct exit blocks that return, meet in a join or chain into one another"""
    raw = {}
    nxt = [0]

    def new():
        nxt[0] += 1
        return nxt[0] - 1

    if draw(st.integers(0, 2)) == 0:
        # acyclic variant: a dispatch tree whose 4-8 arcs (some directly from a branching block: empty arms) enter a
        # chain of 4-6 tail blocks at different points - a branch tail with many headers
        m = draw(st.integers(4, 6))
        arcs = draw(st.integers(4, 8))
        root = new()
        chain = [new() for _ in range(m)]
        tg = [draw(st.sampled_from(chain)) for _ in range(arcs)]

        def tree0(ts):
            if len(ts) == 1:
                if draw(st.booleans()):
                    return ts[0]  # empty arm: the arc comes straight from the branching block
                me = new()
                raw[me] = [ts[0]]
                return me
            me = new()
            mid = len(ts) // 2
            a, b = tree0(ts[:mid]), tree0(ts[mid:])
            raw[me] = [a, b] if a != b else [a]
            return me

        mid = len(tg) // 2
        a, b = tree0(tg[:mid]), tree0(tg[mid:])
        raw[root] = [a, b] if a != b else [a]
        for i, t_ in enumerate(chain):
            raw[t_] = ([chain[i + 1]] if draw(st.booleans()) else [chain[-1]]) if i + 1 < m else []  # on to the next tail block, or straight to the last
            if i + 2 < m and draw(st.integers(0, 3)) == 0:
                raw[t_].append(chain[draw(st.integers(i + 2, m - 1))])
        return repair(nxt[0], raw)
    h = draw(st.sampled_from([1, 1, 2, 3, 4, 5]))
    x = draw(st.integers(3, 5))
    extra = draw(st.integers(0, 3))
    arcs = draw(st.integers(h, h + 2))

    root = new()
    ring = [new() for _ in range(h + extra)]
    headers = draw(st.permutations(ring))[:h]
    exits = [new() for _ in range(x)]
    join = new()
    targets = list(headers) + [draw(st.sampled_from(headers)) for _ in range(arcs - h)]
    targets = draw(st.permutations(targets))

    def tree(ts):
        if len(ts) == 1:
            return ts[0]
        me = new()
        mid = len(ts) // 2
        a, b = tree(ts[:mid]), tree(ts[mid:])
        raw[me] = [a, b] if a != b else [a]
        return me

    if len(targets) == 1:
        raw[root] = [targets[0]]
    else:
        mid = len(targets) // 2
        a, b = tree(list(targets[:mid])), tree(list(targets[mid:]))
        raw[root] = [a, b] if a != b else [a]
    for i, r in enumerate(ring):
        raw[r] = [ring[(i + 1) % len(ring)]]
    hosts = draw(st.permutations(ring))
    for j, e in enumerate(exits):
        hst = hosts[j % len(hosts)]
        if len(raw[hst]) < 2:
            if draw(st.booleans()):
                raw[hst].append(e)
            else:
                raw[hst].insert(0, e)
        k = draw(st.integers(0, 3))
        raw[e] = [] if k == 0 else [join] if k in (1, 2) else [exits[(j + 1) % x]]
    raw[join] = []
    if draw(st.integers(0, 2)) == 0:
        # the whole loop is one arm of a branch; the other arm enters the exit blocks' chain as well
        top = new()
        other = new()
        raw[other] = list(dict.fromkeys(draw(st.lists(st.sampled_from(exits + [join]), min_size=1, max_size=2))))
        order = [top] + [k for k in sorted(raw) if k != top]
        raw[top] = [root, other] if draw(st.booleans()) else [other, root]
        ren = {o: i for i, o in enumerate(order)}
        raw = {ren[u]: [ren[t] for t in raw[u]] for u in order}
    return repair(nxt[0], raw)


@st.composite
def nest_cfgs(draw):
    """loop nests 2-4 deep whose levels are while / do-while loops (the do-while levels keep their original latch),
    with linear or branching bodies, placed in a branch arm (whose other arm may leave differently), after a branch,
    or inside another loop"""
    k = draw(st.integers(2, 4))
    inner = [draw(st.sampled_from(["S", "S", ("if", ["S"], ["B"]), ("if", ["S"], [])]))]
    for lvl in range(k):
        kind = draw(st.sampled_from(["while", "dowhile", "dowhile_bf", "dowhile_bf", "dowhile_bf", "whileelse"]))
        pre = draw(st.sampled_from([[], [], ["S"], ["S"], [("if", ["C"], [])], [("if", ["S"], ["B"])]]))
        post = draw(st.sampled_from([[], [], [], ["S"], [("if", ["B"], [])]]))
        body = pre + inner + post
        inner = [(kind, body, ["S"])] if kind == "whileelse" else [(kind, body)]
    # 1-3 surrounding contexts, innermost first: an arm of an if (the other arm falls through, returns, breaks or is
    # empty), statements before / after, another loop
    prog = inner
    for _ in range(draw(st.integers(1, 4))):
        w = draw(st.integers(0, 7))
        alt = draw(st.sampled_from([["S"], ["S"], [], [], [], ["R"], ["B"], ["C"]]))  # if without else is the commonest construct
        if w <= 1:
            prog = [("if", prog, alt)]
        elif w == 2:
            prog = [("if", alt, prog)]
        elif w == 3:
            prog = ["S"] + prog
        elif w == 4:
            prog = prog + draw(st.sampled_from([["S"], [("if", ["R"], [])], [("if", ["S"], ["S"])]]))
        else:
            prog = [(("while", "dowhile", "dowhile_bf")[w - 5], prog)]
    return cfg_of_structured(prog, tight=draw(st.integers(0, 3)) > 0)


@st.composite
def structured_cfgs(draw, max_n=14):
    depth = draw(st.sampled_from([2, 2, 3])) if max_n <= 14 else 4
    prog = draw(_stmts(depth))
    g = cfg_of_structured(prog)
    d = depth
    while len(g) > max_n * 2 and d > 0:
        # keep sizes bounded without rejection: flatten the deepest nesting
        d -= 1
        g = cfg_of_structured(_flatten_below(prog, d))
    return g


def _flatten_below(prog, d):
    out = []
    for s in prog:
        if isinstance(s, str):
            out.append(s)
        elif d <= 0:
            out.append("S")
        else:
            out.append((s[0],) + tuple(_flatten_below(x, d - 1) for x in s[1:]))
    return out


def cfg_of_structured(prog, tight=False):
    """CFG of a structured skeleton: S basic, B break, C continue, R return,
    (if, then, else), (while, body), (whileelse, body, else).  Own builder
    (not the library front end).  tight: the empty join / exit / else blocks
    are bypassed afterwards (statement blocks stay), so that a construct
    leaves directly to the continuation of the construct around it."""
    succ: dict[int, list[int]] = {}
    stmt_blocks = set()

    def new():
        i = len(succ)
        succ[i] = []
        return i

    def build(stmts, cur, loop):
        for s in stmts:
            if cur is None:
                return None
            if s == "S":
                nxt = new()
                succ[cur] = [nxt]
                stmt_blocks.add(cur)
                cur = nxt
            elif s == "R":
                succ[cur] = []
                cur = None
            elif s == "B":
                if loop is None:
                    continue
                succ[cur] = [loop[1]]
                cur = None
            elif s == "C":
                if loop is None:
                    continue
                succ[cur] = [loop[0]]
                cur = None
            elif s[0] == "if":
                t, e, j = new(), new(), new()
                succ[cur] = [t, e]
                et = build(s[1], t, loop)
                if et is not None:
                    succ[et] = [j]
                ee = build(s[2], e, loop)
                if ee is not None:
                    succ[ee] = [j]
                cur = j
            elif s[0] in ("dowhile", "dowhile_bf"):
                # body first, then a block that is both the only latch and the only exiting block of the loop (the
                # shape for which loop restructuring declares the back edge on the ORIGINAL block); _bf: the back edge
                # is listed before the exit
                b, x = new(), new()
                succ[cur] = [b]
                eb = build(s[1], b, (b, x))
                if eb is not None:
                    succ[eb] = [b, x] if s[0] == "dowhile_bf" else [x, b]
                cur = x
            elif s[0] in ("while", "whileelse"):
                h, b, x, el = new(), new(), new(), new()
                succ[cur] = [h]
                succ[h] = [b, el]
                eb = build(s[1], b, (h, x))
                if eb is not None:
                    succ[eb] = [h]
                ee = build(s[2] if s[0] == "whileelse" else [], el, loop)
                if ee is not None:
                    succ[ee] = [x]
                cur = x
        return cur

    entry = new()
    first = new()
    succ[entry] = [first]
    build(prog, first, None)
    if tight:
        return contract(succ, keep=stmt_blocks)
    return repair(len(succ), succ)


# --------------------------------------------------------------------------
# classification (own; nothing of the library is used)


def sccs(succ):
    """Kosaraju-free: classes of mutual reachability (small graphs)."""
    index = {}
    low = {}
    stack = []
    on = set()
    out = []
    counter = [0]
    for root in succ:
        if root in index:
            continue
        work = [(root, iter(succ[root]))]
        index[root] = low[root] = counter[0]
        counter[0] += 1
        stack.append(root)
        on.add(root)
        while work:
            v, it = work[-1]
            adv = False
            for w in it:
                if w not in index:
                    index[w] = low[w] = counter[0]
                    counter[0] += 1
                    stack.append(w)
                    on.add(w)
                    work.append((w, iter(succ[w])))
                    adv = True
                    break
                elif w in on:
                    low[v] = min(low[v], index[w])
            if adv:
                continue
            work.pop()
            if work:
                u = work[-1][0]
                low[u] = min(low[u], low[v])
            if low[v] == index[v]:
                comp = set()
                while True:
                    w = stack.pop()
                    on.discard(w)
                    comp.add(w)
                    if w == v:
                        break
                out.append(comp)
    return out


def reducible(succ, entry=0):
    """T1/T2 collapse."""
    g = {i: set(ss) for i, ss in succ.items()}
    changed = True
    while changed and len(g) > 1:
        changed = False
        for i in list(g):
            if i in g[i]:
                g[i].discard(i)
                changed = True
        preds = {i: set() for i in g}
        for i, ss in g.items():
            for s in ss:
                preds[s].add(i)
        for i in list(g):
            if i != entry and len(preds[i]) == 1:
                (p,) = preds[i]
                g[p] |= g[i]
                g[p].discard(i)
                del g[i]
                for j in g:
                    if i in g[j]:
                        g[j].discard(i)
                        g[j].add(p)
                changed = True
                break
    return len(g) == 1


def classify(succ):
    """class tags of an int graph."""
    tags = []
    n = len(succ)
    tags.append("n<=5" if n <= 5 else "n<=10" if n <= 10 else "n<=20" if n <= 20 else "n>20")
    comps = [c for c in sccs(succ) if len(c) > 1 or next(iter(c)) in succ[next(iter(c))]]
    nexits = sum(1 for ss in succ.values() if not ss)
    if nexits > 1:
        tags.append("multi_return")
    if any(len(ss) == 2 for ss in succ.values()):
        tags.append("has_branch")
    if not comps:
        tags.append("acyclic")
        return tags
    tags.append("cyclic")
    if len(comps) > 1:
        tags.append("loops>=2")
    for c in comps:
        headers = {t for i, ss in succ.items() if i not in c for t in ss if t in c}
        exits = {t for i in c for t in succ[i] if t not in c}
        exiting = {i for i in c if any(t not in c for t in succ[i])}
        latches = {i for i in c if any(t in headers for t in succ[i])}
        if len(headers) > 1:
            tags.append("multi_header_loop")
        if len(exits) > 1:
            tags.append("multi_exit_loop")
        if len(exiting) > 1:
            tags.append("multi_exiting_loop")
        if len(latches) > 1:
            tags.append("multi_latch_loop")
        if len(c) == 1:
            tags.append("self_loop")
        # nested: removing the headers leaves another cycle inside
        inner = {i: tuple(t for t in succ[i] if t in c and t not in headers) for i in c if i not in headers}
        if any(len(k) > 1 or next(iter(k)) in inner[next(iter(k))] for k in sccs(inner)):
            tags.append("nested_loop")
        if len(headers) >= 3:
            tags.append("loop_entries>=3")
        if len(exits) >= 3:
            tags.append("loop_exits>=3")
        if len(latches) >= 3:
            tags.append("loop_latches>=3")
    if not reducible(succ):
        tags.append("irreducible")
    d = _loop_depth(succ)
    if d >= 3:
        tags.append("loop_depth>=3")
    return sorted(set(tags))


def _loop_depth(succ, limit=6):
    """nesting depth of cycles: 1 + depth of what is left of a component when its entry targets are removed"""
    best = 0
    for c in sccs(succ):
        if len(c) == 1 and next(iter(c)) not in succ[next(iter(c))]:
            continue
        if limit <= 0:
            return 1
        headers = {t for i, ss in succ.items() if i not in c for t in ss if t in c} or {min(c)}
        inner = {i: tuple(t for t in succ[i] if t in c and t not in headers) for i in c if i not in headers}
        best = max(best, 1 + (_loop_depth(inner, limit - 1) if inner else 0))
    return best


def nontrivial_shape(succ) -> bool:
    """graph has a cycle or a block with two successors."""
    if any(len(ss) == 2 for ss in succ.values()):
        return True
    return any(len(c) > 1 or next(iter(c)) in succ[next(iter(c))] for c in sccs(succ))


# --------------------------------------------------------------------------
# naming

STYLES = ["num", "perm", "bytecode", "alpha", "gen", "zpad", "words"]

# names in the generator's own namespace (blocks named like generated blocks
# and regions); restructuring must never hand out one of them again
GEN_STYLE_NAMES = [f"{k}_block_{i}" for i in range(3) for k in ("synth_asign", "synth_exit_latch", "synth_exit", "synth_head", "synth_tail", "synth_fill", "synth_return", "synth_exit_branch", "basic")] + [
    f"{k}_region_{i}" for i in range(3) for k in ("loop", "head", "branch", "tail", "meta")
]


def restyle(succ, style="num", perm=None):
    """int graph -> ordered {name: (names...)}; entry first."""
    n = len(succ)
    if style == "num":
        names = {i: str(i) for i in succ}
    elif style == "perm":
        p = perm if perm is not None else list(range(n))
        names = {i: str(p[i]) for i in succ}
    elif style == "bytecode":
        names = {i: f"python_bytecode_block_{i}" for i in succ}
    elif style == "gen":
        p = perm if perm is not None else list(range(n))
        pool = GEN_STYLE_NAMES
        if n > len(pool):
            names = {i: str(i) for i in succ}
        else:
            # a permutation of the pool prefix, so that names are distinct
            order = sorted(range(len(pool)), key=lambda j: (p[j % n] if n else 0, j))
            names = {i: pool[order[k]] for k, i in enumerate(sorted(succ))}
    elif style == "words":
        # names made of a few words joined by underscores ('loop', 'loop_body', 'body_exit', 'exit', ...): pairs of
        # different names concatenate to the same string, one name is a prefix / suffix / substring of another
        p = perm if perm is not None else list(range(n))
        words = ["loop", "body", "exit", "a", "b"]
        pool = []
        for k in (1, 2, 3):
            import itertools

            pool.extend("_".join(t) for t in itertools.product(words, repeat=k))
            if len(pool) >= max(n, 30):
                break
        if n > len(pool):
            names = {i: str(i) for i in succ}
        else:
            # a permutation-dependent but collision-free choice among the shortest names
            idx = sorted(range(len(pool)), key=lambda j: ((p[j % n] * 7 + j * 3) % 11, j))[:n]
            names = {i: pool[idx[k]] for k, i in enumerate(sorted(succ))}
    elif style == "zpad":
        # numerals that differ only in leading zeros ('1', '01', '001'): equal as numbers, different as strings, so
        # any ordering that is not a plain string comparison ties on them
        p = perm if perm is not None else list(range(n))
        names = {i: "0" * (p[i] % 3) + str(p[i] // 3) for i in succ}
    elif style == "alpha":
        p = perm if perm is not None else list(range(n))
        names = {i: "b" + "abcdefghijklmnopqrstuvwxyz"[p[i] % 26] + str(p[i] // 26) for i in succ}
    else:
        raise ValueError(style)
    return {names[i]: tuple(names[t] for t in succ[i]) for i in sorted(succ)}


def gkey(g):
    return tuple((k, tuple(v)) for k, v in g.items())


def graph_to_json(g):
    return [[k, list(v)] for k, v in g.items()]


def graph_from_json(j):
    return {k: tuple(v) for k, v in j}


def graph_to_str(g):
    """compact, readable form for evidence samples: 'a>b,c; b>; c>b'"""
    return "; ".join(f"{k}>{','.join(v)}" for k, v in g.items())
