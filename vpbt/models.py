"""Reference models and oracles for (restructured) graphs: M1-M4 of DESIGN.md.

Everything here reads public fields of the result only and calls no helper of
the library (find_head, compute_scc, dominators ... are themselves under
test).  A violated clause raises Viol(clause_id, message).
"""

from __future__ import annotations

from numba_scfg.core.datastructures.basic_block import (
    BasicBlock,
    PythonASTBlock,
    PythonBytecodeBlock,
    RegionBlock,
    SyntheticAssignment,
    SyntheticBlock,
    SyntheticBranch,
    SyntheticExitingLatch,
)
from numba_scfg.core.datastructures.scfg import SCFG


class Viol(Exception):
    def __init__(self, clause: str, msg: str):
        super().__init__(f"{clause}: {msg}")
        self.clause = clause
        self.msg = msg


class Inconclusive(Exception):
    pass


# --------------------------------------------------------------------------
# building library graphs from generated graphs


def dfs_backedges(g) -> dict:
    """{block: [targets]}: the edges of g that close a cycle in a depth-first
    search from the first block (targets that are on the DFS stack) - what a
    caller of the dict / YAML front end would declare as back edges."""
    out = {}
    if not g:
        return out
    first = next(iter(g))
    state = {}
    stack = [(first, iter(g[first]))]
    state[first] = 1
    while stack:
        n, it = stack[-1]
        for t in it:
            if t not in g:
                continue
            if state.get(t) == 1:
                out.setdefault(n, []).append(t)
            elif t not in state:
                state[t] = 1
                stack.append((t, iter(g[t])))
                break
        else:
            state[n] = 2
            stack.pop()
    return out


def mk_scfg(g, payload="plain", trees=None, declare=False) -> SCFG:
    """g: ordered {name: (succ names)}.  payload: plain | bytecode | ast.
    declare: the DFS back edges are declared on the blocks, as a caller of the
    dict / YAML front end may do."""
    blocks = {}
    if declare:
        import dataclasses

        s = mk_scfg(g, payload, trees)
        be = dfs_backedges(g)
        return SCFG({n: dataclasses.replace(b, backedges=tuple(be[n])) if n in be else b for n, b in s.graph.items()})
    for i, (name, ss) in enumerate(g.items()):
        if payload == "plain":
            b = BasicBlock(name=name, _jump_targets=tuple(ss))
        elif payload == "bytecode":
            b = PythonBytecodeBlock(name=name, _jump_targets=tuple(ss), begin=4 * i, end=4 * i + 4)
        elif payload == "ast":
            if trees is None:
                trees = simple_trees(g)
            b = PythonASTBlock(name=name, _jump_targets=tuple(ss), begin=i, end=i + 1, tree=trees[name])
        else:
            raise ValueError(payload)
        blocks[name] = b
    return SCFG(blocks)


def simple_trees(g):
    """executable AST payload for a generated graph: one logging statement per
    block, a test for two-way blocks, a return for exits."""
    import ast

    trees = {}
    for i, (name, ss) in enumerate(g.items()):
        stmts = [ast.parse(f"v{i} = e({i}, 'q')").body[0]]
        if len(ss) == 2:
            stmts.append(ast.parse(f"d({i}) < v{i}").body[0].value)
        elif len(ss) == 0:
            stmts.append(ast.parse(f"return v{i}").body[0])
        trees[name] = stmts
    return trees


STAGES = ("closed", "loop", "branch", "restructure")


def apply_stage(scfg: SCFG, stage: str):
    """The public stage drivers (library exceptions propagate).  Returns the
    resulting graph: the same object, except for the histories that write the
    graph out and read it back between stages."""
    if stage == "reentrant":
        # restructure() on a graph whose loops were restructured already
        scfg.join_returns()
        scfg.restructure_loop()
        scfg.restructure()
        return scfg
    if stage == "reload":
        # write / read between the stages (dict, then YAML), the branch stage driven level by level on the re-read graph
        from numba_scfg.core import transformations as T

        scfg.join_returns()
        scfg, _ = SCFG.from_dict(scfg.to_dict())
        scfg.restructure_loop()
        scfg, _ = SCFG.from_yaml(scfg.to_yaml())
        T.restructure_branch(scfg.region)
        for name in [k for k, b in scfg.graph.items() if isinstance(b, RegionBlock)]:
            scfg.graph[name].subregion.restructure_branch()
        return scfg
    if stage == "restructure":
        scfg.restructure()
        return scfg
    if stage == "levelwise":
        # the same pipeline driven level by level: the non-recursive transformation on the top region, then the
        # public stage driver of every top-level region's own sub-graph (which recurses below it)
        from numba_scfg.core import transformations as T

        scfg.join_returns()
        T.restructure_loop(scfg.region)
        for name in [k for k, b in scfg.graph.items() if isinstance(b, RegionBlock)]:
            scfg.graph[name].subregion.restructure_loop()
        T.restructure_branch(scfg.region)
        for name in [k for k, b in scfg.graph.items() if isinstance(b, RegionBlock)]:
            scfg.graph[name].subregion.restructure_branch()
        return scfg
    scfg.join_returns()
    if stage in ("loop", "branch"):
        scfg.restructure_loop()
    if stage == "branch":
        scfg.restructure_branch()
    return scfg


# --------------------------------------------------------------------------
# M1 flattening and name resolution


class Flat:
    """blocks: name -> non-region block; regions: name -> RegionBlock;
    home: name -> SCFG object holding it; parent: name -> enclosing region
    name (None at top); depth."""

    def __init__(self, scfg: SCFG):
        self.top = scfg
        self.blocks: dict[str, BasicBlock] = {}
        self.regions: dict[str, RegionBlock] = {}
        self.home: dict[str, SCFG] = {}
        self.parent: dict[str, str | None] = {}
        self.depth = 0
        self._rec(scfg, None, 1, set())

    def _rec(self, s: SCFG, parent, depth, active):
        if id(s) in active:
            raise Viol("H-cycle", "sub-graph contains itself")
        if depth > 2000:
            raise Viol("H-depth", "hierarchy deeper than 2000")
        self.depth = max(self.depth, depth)
        for k, b in s.graph.items():
            if k != b.name:
                raise Viol("H-key", f"dict key {k!r} != block name {b.name!r}")
            if k in self.blocks or k in self.regions:
                raise Viol("H-unique", f"name {k!r} occurs twice in the hierarchy")
            self.home[k] = s
            self.parent[k] = parent
            if isinstance(b, RegionBlock):
                if b.subregion is None:
                    raise Viol("H-sub", f"region {k} has no subregion")
                self.regions[k] = b
                self._rec(b.subregion, k, depth + 1, active | {id(s)})
            else:
                self.blocks[k] = b

    def all_names(self):
        return set(self.blocks) | set(self.regions)

    def resolve(self, name: str) -> str:
        """a target naming a region resolves to its innermost header."""
        seen = set()
        while name in self.regions:
            if name in seen:
                raise Viol("H-header-cycle", f"header chain loops at {name}")
            seen.add(name)
            name = self.regions[name].header
        if name not in self.blocks:
            raise Viol("H-dangling", f"name {name!r} resolves to nothing")
        return name

    def inner_exiting(self, rname: str) -> str:
        seen = set()
        name = rname
        while name in self.regions:
            if name in seen:
                raise Viol("H-exiting-cycle", f"exiting chain loops at {name}")
            seen.add(name)
            r = self.regions[name]
            if r.exiting not in r.subregion.graph:
                raise Viol("H-exiting-inside", f"region {name}: exiting {r.exiting!r} not in its sub-graph")
            name = r.exiting
        return name

    def ancestors(self, name):
        out = []
        p = self.parent.get(name)
        while p is not None:
            out.append(p)
            p = self.parent.get(p)
        return out

    def interior(self, rname: str) -> set[str]:
        """all names (blocks and regions) strictly inside region rname."""
        out = set()
        todo = [self.regions[rname]]
        while todo:
            r = todo.pop()
            for k, b in r.subregion.graph.items():
                out.add(k)
                if isinstance(b, RegionBlock):
                    todo.append(b)
        return out


def find_entry(g: dict) -> str:
    tg = {t for ss in g.values() for t in ss}
    heads = [k for k in g if k not in tg]
    assert len(heads) == 1, heads
    return heads[0]


def top_head(scfg: SCFG) -> str:
    """the predecessor-free block of the top graph (own computation)."""
    tg = set()
    for b in scfg.graph.values():
        tg.update(b.jump_targets)
    heads = [k for k in scfg.graph if k not in tg]
    if len(heads) != 1:
        raise Viol("W-head", f"top graph has {len(heads)} predecessor-free blocks: {sorted(heads)[:4]}")
    return heads[0]


# --------------------------------------------------------------------------
# M2 abstract machine


def step_synth(b: BasicBlock, val: dict, stale: frozenset, stats=None):
    """One synthetic block.  Returns (next name | None, val, stale)."""
    if isinstance(b, SyntheticAssignment):
        val = dict(val)
        val.update(b.variable_assignment)
        if stale:
            stale = stale - set(b.variable_assignment)
    if isinstance(b, SyntheticBranch):
        var = b.variable
        if not var:
            raise Viol("V-novar", f"branching block {b.name} has an empty control variable")
        if var not in val:
            raise Viol("V-unset", f"control variable {var} read at {b.name} before any assignment on this path")
        v = val[var]
        if v not in b.branch_value_table:
            raise Viol("V-range", f"{var}={v} is not a key of the value table of {b.name}: {b.branch_value_table}")
        if isinstance(b, SyntheticExitingLatch):
            if var in stale:
                raise Viol("V-stale", f"latch {b.name} reads {var} not assigned since the latch last ran")
            stale = stale | {var}
        elif stats is not None and var in stale:
            stats["stale_nonlatch_reads"] = stats.get("stale_nonlatch_reads", 0) + 1
        t = b.branch_value_table[v]
        if t not in b._jump_targets:
            raise Viol("V-table", f"table of {b.name} sends {var}={v} to {t!r} which is not one of its targets {b._jump_targets}")
        return t, val, stale
    jts = b._jump_targets
    if len(jts) == 0:
        return None, val, stale
    if len(jts) != 1:
        raise Viol("W-synth-arity", f"non-branching synthetic block {b.name} ({type(b).__name__}) has {len(jts)} targets")
    return jts[0], val, stale


def _vkey(val, stale):
    return (tuple(sorted(val.items())), tuple(sorted(stale)))


MAX_STATES = 60000


def walk_flat(orig: dict, scfg: SCFG, flat: Flat | None = None, stats=None):
    """M3 with the flat walker: product of the original graph with the result
    plus control-variable valuation; all decision sequences.  Returns (states,
    transitions)."""
    flat = flat or Flat(scfg)
    origset = set(orig)
    blocks = flat.blocks
    for o in orig:
        if o not in blocks:
            raise Viol("W-missing", f"original block {o} is not a leaf of the result")
    entry = find_entry(orig)

    def run(name, val, stale):
        seen = set()
        while True:
            if name is None:
                return None, val, stale
            name = flat.resolve(name)
            if name in origset:
                return name, val, stale
            key = (name, _vkey(val, stale))
            if key in seen:
                raise Viol("W-synth-cycle", f"cycle through synthetic blocks only at {name}")
            seen.add(key)
            b = blocks[name]
            if not isinstance(b, SyntheticBlock):
                raise Viol("W-foreign", f"walk reached {name} ({type(b).__name__}) which is neither original nor synthetic")
            name, val, stale = step_synth(b, val, stale, stats)

    first, val, stale = run(top_head(scfg), {}, frozenset())
    if first != entry:
        raise Viol("W-entry", f"walk starts at {first}, the original entry is {entry}")
    start = (first, _vkey(val, stale))
    todo = [(first, val, stale)]
    seen = {start}
    trans = 0
    while todo:
        o, val, stale = todo.pop()
        b = blocks[o]
        osucc = orig[o]
        jts = b._jump_targets
        if not osucc:
            if len(jts) > 1:
                raise Viol("W-exit-arity", f"exit block {o} gained {len(jts)} targets")
            if jts:
                nxt, _, _ = run(jts[0], val, stale)
                trans += 1
                if nxt is not None:
                    raise Viol("W-exit-continues", f"original exit {o} continues to {nxt}")
            continue
        if len(jts) != len(osucc):
            raise Viol("W-arity", f"block {o} had {len(osucc)} successors, now {len(jts)}")
        for i, t in enumerate(jts):
            nxt, nval, nstale = run(t, val, stale)
            trans += 1
            if nxt != osucc[i]:
                raise Viol("W-succ", f"{o} decision {i} reaches {nxt}, original successor is {osucc[i]}")
            key = (nxt, _vkey(nval, nstale))
            if key not in seen:
                if len(seen) >= MAX_STATES:
                    raise Inconclusive("state cap")
                seen.add(key)
                todo.append((nxt, nval, nstale))
    return len(seen), trans


def _inner_backedges(r: RegionBlock):
    b = r.subregion.graph.get(r.exiting)
    n = 0
    while isinstance(b, RegionBlock) and n < 300:
        b = b.subregion.graph.get(b.exiting)
        n += 1
    return b.backedges if b is not None else ()


def walk_regions(orig: dict, scfg: SCFG, stats=None):
    """M3 with the regional walker: a stack of regions; a region is entered at
    its declared header and left only from its declared exiting block towards
    one of the region block's own targets (or a declared back edge of the
    innermost exiting block)."""
    origset = set(orig)
    entry = find_entry(orig)
    top = scfg

    def graph_of(stack):
        return stack[-1].subregion if stack else top

    def go(stack, last, name, val, stale):
        stack = list(stack)
        seen = set()
        while True:
            if name is None:
                return None
            g = graph_of(stack)
            while name not in g.graph:
                if not stack:
                    raise Viol("R-dangling", f"target {name!r} found at no enclosing level")
                r = stack.pop()
                if last != r.exiting:
                    raise Viol("R-leave", f"region {r.name} left from {last}, its exiting block is {r.exiting}")
                if name not in r._jump_targets and name not in _inner_backedges(r):
                    raise Viol("R-target", f"region {r.name} left towards {name!r}, its targets are {r._jump_targets}")
                last = r.name
                g = graph_of(stack)
            b = g.graph[name]
            if isinstance(b, RegionBlock):
                if len(stack) > 2000:
                    raise Viol("R-depth", "region nesting deeper than 2000")
                stack.append(b)
                if b.subregion is None or b.header not in b.subregion.graph:
                    raise Viol("R-header", f"region {b.name}: header {b.header!r} not in its sub-graph")
                name = b.header
                last = None
                continue
            if name in origset:
                return (tuple(stack), name, val, stale)
            key = (tuple(r.name for r in stack), name, _vkey(val, stale))
            if key in seen:
                raise Viol("R-synth-cycle", f"cycle through synthetic blocks only at {name}")
            seen.add(key)
            if not isinstance(b, SyntheticBlock):
                raise Viol("R-foreign", f"walk reached {name} ({type(b).__name__})")
            nxt, val, stale = step_synth(b, val, stale, stats)
            if nxt is None:
                return None
            last = name
            name = nxt

    st0 = go((), None, top_head(scfg), {}, frozenset())
    if st0 is None or st0[1] != entry:
        raise Viol("R-entry", f"regional walk starts at {st0 and st0[1]}, original entry is {entry}")

    def key(s):
        return (tuple(r.name for r in s[0]), s[1], _vkey(s[2], s[3]))

    todo = [st0]
    seen = {key(st0)}
    trans = 0
    while todo:
        stack, o, val, stale = todo.pop()
        b = graph_of(list(stack)).graph[o]
        osucc = orig[o]
        jts = b._jump_targets
        if not osucc:
            if len(jts) > 1:
                raise Viol("R-exit-arity", f"exit block {o} gained {len(jts)} targets")
            if jts:
                trans += 1
                r = go(stack, o, jts[0], val, stale)
                if r is not None:
                    raise Viol("R-exit-continues", f"original exit {o} continues to {r[1]}")
            continue
        if len(jts) != len(osucc):
            raise Viol("R-arity", f"block {o} had {len(osucc)} successors, now {len(jts)}")
        for i, t in enumerate(jts):
            r = go(stack, o, t, val, stale)
            trans += 1
            if r is None or r[1] != osucc[i]:
                raise Viol("R-succ", f"{o} decision {i} reaches {r and r[1]}, original successor is {osucc[i]}")
            k = key(r)
            if k not in seen:
                if len(seen) >= MAX_STATES:
                    raise Inconclusive("state cap")
                seen.add(k)
                todo.append(r)
    return len(seen), trans


# --------------------------------------------------------------------------
# M4 hierarchy validator (C04)


def check_hierarchy(scfg: SCFG, flat: Flat | None = None) -> Flat:
    flat = flat or Flat(scfg)
    names = flat.all_names()
    # meta region of the top graph
    if scfg.region is None or scfg.region.kind != "meta" or scfg.region.subregion is not scfg:
        raise Viol("H-meta", "top graph's region is not a meta region wrapping the graph itself")
    for rname, r in flat.regions.items():
        sub = r.subregion
        if r.kind not in ("loop", "head", "branch", "tail"):
            raise Viol("H-kind", f"region {rname} has kind {r.kind!r}")
        if r.header not in sub.graph:
            raise Viol("H-header-inside", f"region {rname}: header {r.header!r} not in its sub-graph")
        if r.exiting not in sub.graph:
            raise Viol("H-exiting-inside", f"region {rname}: exiting {r.exiting!r} not in its sub-graph")
        if len(sub.graph) == 0:
            raise Viol("H-empty", f"region {rname} is empty")
        # subregion.region names the region itself
        sr = sub.region
        if sr is None or sr.name != rname or sr.kind != r.kind:
            raise Viol("H-self", f"sub-graph of {rname} records region {getattr(sr, 'name', None)!r}/{getattr(sr, 'kind', None)!r}")
        # the sub-graph's back reference describes the region as it is now
        for attr in ("header", "exiting", "_jump_targets"):
            if getattr(sr, attr) != getattr(r, attr):
                raise Viol("H-self-stale", f"sub-graph of {rname}: its region record has {attr}={getattr(sr, attr)!r}, the region has {getattr(r, attr)!r}")
        if getattr(sr.parent_region, "name", None) != getattr(r.parent_region, "name", None):
            raise Viol("H-self-parent", f"sub-graph of {rname}: its region record names parent {getattr(sr.parent_region, 'name', None)!r}, the region itself {getattr(r.parent_region, 'name', None)!r}")
        # parent recorded == region that actually contains it (by name & kind)
        pr = r.parent_region
        want = flat.parent[rname]
        if want is None:
            if pr is None or pr.name != scfg.region.name or pr.kind != "meta":
                raise Viol("H-parent", f"top-level region {rname} records parent {getattr(pr, 'name', None)!r}")
        else:
            if pr is None or pr.name != want or pr.kind != flat.regions[want].kind:
                raise Viol("H-parent", f"region {rname} lies in {want} but records parent {getattr(pr, 'name', None)!r}")
        # region targets == targets of its exiting block, down to the innermost
        ex = sub.graph[r.exiting]
        if tuple(r.jump_targets) != tuple(ex.jump_targets):
            raise Viol("H-sync", f"region {rname} targets {r.jump_targets} != targets {ex.jump_targets} of its exiting block {r.exiting}")
        if r.backedges:
            # region blocks never carry back edges of their own unless the
            # exiting block declares the same
            if tuple(r.backedges) != tuple(ex.backedges):
                raise Viol("H-sync-be", f"region {rname} back edges {r.backedges} != {ex.backedges} of its exiting block")
    # every edge resolves in the same sub-graph or an enclosing one
    for name in names:
        b = flat.blocks.get(name) or flat.regions[name]
        home = flat.home[name]
        anc = flat.ancestors(name)  # innermost first
        for t in tuple(b._jump_targets) + tuple(b.backedges):
            if t not in names:
                raise Viol("H-dangling", f"{name} names {t!r} which exists nowhere in the hierarchy")
            th = flat.parent[t]
            # t must live in the same graph or in the graph of an enclosing region
            if th is not None and th not in anc:
                raise Viol("H-scope", f"{name} (in {flat.parent[name]}) names {t} which lives in {th}, neither the same nor an enclosing region")
        for t in b.backedges:
            if t not in b._jump_targets:
                raise Viol("H-backedge", f"{name}: back edge {t} is not among its targets {b._jump_targets}")
    # entry only at the header, exit only from the exiting block
    for rname, r in flat.regions.items():
        inside = flat.interior(rname)
        for name in names:
            if name == rname:
                continue
            b = flat.blocks.get(name) or flat.regions[name]
            if name in inside:
                # leaving: only the (recursively) exiting blocks may name an outside block
                chain = set()
                n = rname
                while n in flat.regions:
                    chain.add(flat.regions[n].exiting)
                    n = flat.regions[n].exiting
                for t in b._jump_targets:
                    if t not in inside and t != rname and name not in chain:
                        raise Viol("H-leave", f"{name} inside region {rname} jumps out to {t} but is not its exiting block")
            else:
                for t in b._jump_targets:
                    if t in inside:
                        raise Viol("H-enter", f"{name} outside region {rname} jumps to inner block {t}")
    return flat


# --------------------------------------------------------------------------
# M4 structure validator (C03)


def _level_graphs(flat: Flat):
    yield None, flat.top
    for rname, r in flat.regions.items():
        yield rname, r.subregion


def _acyclic(nodes, succ_fn):
    WHITE, GREY, BLACK = 0, 1, 2
    col = dict.fromkeys(nodes, WHITE)
    for root in nodes:
        if col[root] != WHITE:
            continue
        stack = [(root, iter(succ_fn(root)))]
        col[root] = GREY
        while stack:
            v, it = stack[-1]
            for w in it:
                if w not in col:
                    continue
                if col[w] == GREY:
                    return (v, w)
                if col[w] == WHITE:
                    col[w] = GREY
                    stack.append((w, iter(succ_fn(w))))
                    break
            else:
                col[v] = BLACK
                stack.pop()
    return None


def check_structure(scfg: SCFG, flat: Flat | None = None, g: dict | None = None):
    """g: the input graph (named), for the clause 'every cycle of the input
    lies inside a loop region'."""
    flat = flat or Flat(scfg)
    # a declared back edge is a real edge of its block
    for k, b in flat.blocks.items():
        for t in b.backedges:
            if t not in b._jump_targets:
                raise Viol("S-backedge-real", f"{k} declares the back edge {t} but has no such jump target ({b._jump_targets})")
    if g is not None:
        from .gen_graphs import sccs

        loops = {r: flat.interior(r) for r, rb in flat.regions.items() if rb.kind == "loop"}
        for comp in sccs(g):
            if len(comp) == 1 and next(iter(comp)) not in g[next(iter(comp))]:
                continue
            if not any(comp <= inside for inside in loops.values()):
                raise Viol("S-cycle-region", f"the input cycle through {sorted(comp)[:4]} lies inside no loop region")
            # the cycle still exists among the flattened blocks (with back edges)
            inner = {k: [flat.resolve(t) for t in flat.blocks[k]._jump_targets] for k in flat.blocks}
            start = sorted(comp)[0]
            seen, todo = set(), list(inner[start])
            while todo:
                x = todo.pop()
                if x in seen:
                    continue
                seen.add(x)
                todo.extend(inner.get(x, ()))
            if start not in seen:
                raise Viol("S-cycle-lost", f"the input cycle through {start} no longer exists in the flattened result")
    # (a) each level acyclic over jump_targets (back edges dropped)
    for rname, g in _level_graphs(flat):
        cyc = _acyclic(list(g.graph), lambda k: g.graph[k].jump_targets)
        if cyc:
            raise Viol("S-level-cycle", f"level {rname or 'top'}: cycle through {cyc[0]} -> {cyc[1]} without a declared back edge")
    # (b) flat graph without declared back edges acyclic
    def fsucc(k):
        b = flat.blocks[k]
        return [flat.resolve(t) for t in b._jump_targets if t not in b.backedges]

    cyc = _acyclic(list(flat.blocks), fsucc)
    if cyc:
        raise Viol("S-flat-cycle", f"cycle {cyc[0]} -> {cyc[1]} of the flattened result uses no declared back edge")
    # (c) loop regions
    for rname, r in flat.regions.items():
        inside = flat.interior(rname)
        if r.kind == "loop":
            hdr = flat.resolve(rname)
            latches = []
            for k in inside:
                b = flat.blocks.get(k)
                if b is None:
                    continue
                for t in b.backedges:
                    if flat.resolve(t) == hdr:
                        latches.append(k)
            if len(latches) != 1:
                raise Viol("S-loop-latch", f"loop region {rname}: {len(latches)} blocks carry a back edge to its header")
            if latches[0] != flat.inner_exiting(rname):
                raise Viol("S-loop-exiting", f"loop region {rname}: latch {latches[0]} is not its exiting block {flat.inner_exiting(rname)}")
        # every declared back edge from inside a region to its own header is
        # only legal for loop regions or towards an enclosing loop's header
    for k, b in flat.blocks.items():
        for t in b.backedges:
            tgt = flat.resolve(t)
            ok = False
            for a in flat.ancestors(k):
                r = flat.regions[a]
                if r.kind == "loop" and flat.resolve(a) == tgt:
                    ok = True
                    break
            if not ok:
                raise Viol("S-backedge-target", f"{k}: back edge to {t} is not the header of an enclosing loop region")
    # the same claims on the *real* edges of the leaf blocks (a region block's
    # own targets are only a copy): a loop region is entered at its header
    # only, and everything that leaves an arm continues at the common tail
    interiors = {r: flat.interior(r) for r in flat.regions}

    def leaving(r):
        inside = interiors[r]
        for k in inside:
            b = flat.blocks.get(k)
            if b is None:
                continue
            for t in b._jump_targets:
                if t in b.backedges:
                    continue
                rt = flat.resolve(t)
                if rt not in inside:
                    yield k, rt

    for rname, r in flat.regions.items():
        if r.kind == "loop":
            hdr = flat.resolve(rname)
            inside = interiors[rname]
            for k, b in flat.blocks.items():
                if k in inside:
                    continue
                for t in b._jump_targets:
                    rt = flat.resolve(t)
                    if rt in inside and rt != hdr:
                        raise Viol("S-loop-entry", f"loop region {rname} is entered at {rt} by {k}, its header is {hdr}")
    for rname, g_ in _level_graphs(flat):
        for k, b in g_.graph.items():
            if isinstance(b, RegionBlock) and b.kind == "head" and len(b.jump_targets) > 1:
                arms = [g_.graph.get(t) for t in b.jump_targets]
                if not all(isinstance(a, RegionBlock) and len(a.jump_targets) == 1 for a in arms):
                    continue  # reported by the level clauses below
                tail = arms[0].jump_targets[0]
                if tail not in flat.regions and tail not in flat.blocks:
                    continue
                want = flat.resolve(tail)
                for a in arms:
                    for src, rt in leaving(a.name):
                        if rt != want:
                            raise Viol("S-arm-real", f"arm {a.name} of head region {k} is left by {src} towards {rt}, the common tail {tail} starts at {want}")
    # (d)/(e) branching
    for rname, g in _level_graphs(flat):
        for k, b in g.graph.items():
            jt = b.jump_targets
            if len(jt) <= 1:
                continue
            if isinstance(b, RegionBlock):
                if b.kind != "head":
                    raise Viol("S-branch-kind", f"region {k} of kind {b.kind} has {len(jt)} successors")
                if len(set(jt)) != len(jt):
                    raise Viol("S-branch-distinct", f"head region {k} has duplicate successors {jt}")
                conts = set()
                for t in jt:
                    tb = g.graph.get(t)
                    if not isinstance(tb, RegionBlock) or tb.kind != "branch":
                        raise Viol("S-branch-arm", f"successor {t} of head region {k} is not a branch region of the same level")
                    if len(tb.jump_targets) != 1:
                        raise Viol("S-arm-cont", f"branch region {t} has {len(tb.jump_targets)} continuations")
                    conts.add(tb.jump_targets[0])
                if len(conts) != 1:
                    raise Viol("S-common-tail", f"arms of head region {k} continue to {sorted(conts)}")
                tail = g.graph.get(next(iter(conts)))
                if not isinstance(tail, RegionBlock) or tail.kind != "tail":
                    raise Viol("S-tail-kind", f"arms of head region {k} continue to {next(iter(conts))} which is not a tail region of the same level")
            else:
                # non-region block with > 1 non-back-edge successors: must be
                # the exiting block of the head region directly containing it
                if rname is None:
                    raise Viol("S-open-branch", f"top-level block {k} has {len(jt)} successors and lies in no head region")
                reg = flat.regions[rname]
                if reg.kind != "head" or reg.exiting != k:
                    raise Viol("S-open-branch", f"block {k} with {len(jt)} successors is not the exiting block of a head region (it lies in {reg.kind} region {rname}, exiting {reg.exiting})")


# --------------------------------------------------------------------------
# C05 conservation


def check_conservation(g: dict, scfg: SCFG, originals: dict, flat: Flat | None = None, originals_snapshot: dict | None = None):
    """originals: name -> the very block objects put into the graph."""
    flat = flat or Flat(scfg)
    for name, ob in originals.items():
        b = flat.blocks.get(name)
        if b is None:
            raise Viol("K-lost", f"input block {name} is not a leaf of the result")
        if type(b) is not type(ob):
            raise Viol("K-class", f"input block {name} changed class {type(ob).__name__} -> {type(b).__name__}")
        if isinstance(ob, (PythonBytecodeBlock, PythonASTBlock)):
            if (b.begin, b.end) != (ob.begin, ob.end):
                raise Viol("K-payload", f"block {name}: begin/end changed")
        if isinstance(ob, PythonASTBlock):
            if b.tree is not ob.tree:
                raise Viol("K-payload", f"block {name}: tree list replaced")
            snap = originals_snapshot.get(name) if originals_snapshot else None
            if snap is not None and [id(n) for n in b.tree] != snap:
                raise Viol("K-payload", f"block {name}: statements of its tree were added, removed or replaced")
        old = g[name]
        new = b._jump_targets
        if not old:
            if len(new) > 1:
                raise Viol("K-exit-arity", f"exit block {name} gained {len(new)} edges")
            if new and new[0] in g:
                raise Viol("K-exit-edge", f"exit block {name} gained an edge to original block {new[0]}")
        else:
            if len(new) != len(old):
                raise Viol("K-arity", f"block {name}: {len(old)} successors became {len(new)}")
            for i, (o, n) in enumerate(zip(old, new)):
                if n != o and n in g:
                    raise Viol("K-retarget", f"block {name}[{i}]: {o} replaced by original block {n}")
        for t in b.backedges:
            if t not in new:
                raise Viol("K-backedge", f"block {name}: back edge {t} not among targets")
    for name, b in flat.blocks.items():
        if name in originals:
            continue
        if not isinstance(b, SyntheticBlock):
            raise Viol("K-added", f"added block {name} is a {type(b).__name__}, not synthetic")
    # exactly once: Flat already rejects duplicate names


# --------------------------------------------------------------------------
# C06 static clause


def check_tables(flat: Flat):
    n = 0
    for name, b in flat.blocks.items():
        if isinstance(b, SyntheticBranch):
            n += 1
            if not b.variable:
                raise Viol("V-novar", f"{name} has an empty control variable")
            vals = set(b.branch_value_table.values())
            jts = set(b._jump_targets)
            if not vals <= jts:
                raise Viol("V-table", f"{name}: table entries {sorted(vals - jts)} are not successors {sorted(jts)}")
            if not jts <= vals:
                raise Viol("V-cover", f"{name}: successors {sorted(jts - vals)} are named by no table entry")
            for k in b.branch_value_table:
                if not isinstance(k, int) or isinstance(k, bool):
                    raise Viol("V-keytype", f"{name}: table key {k!r} is not an int")
        if isinstance(b, SyntheticAssignment):
            for v, x in b.variable_assignment.items():
                if not isinstance(v, str) or not v:
                    raise Viol("V-assign", f"{name}: assignment to {v!r}")
    return n


def check_dataflow(flat: Flat, top_entry: str, stats=None):
    """C06 static clause over the flattened result (every edge, declared back
    edges included; path-insensitive, so it also covers paths that no
    valuation can take):
      V-must        forward must-analysis: at every branching block reachable
                    from the entry its variable is assigned on EVERY incoming
                    path;
      V-must-latch  on every cycle from an exiting latch back to itself the
                    latch's variable is assigned again.
    The may-analysis of value ranges is only reported (range_may_excess): an
    exit variable legitimately carries a value outside the exit table on paths
    that take the back edge."""
    blocks = flat.blocks
    succ = {}
    for n, b in blocks.items():
        succ[n] = [flat.resolve(t) for t in b._jump_targets]
    assigns = {n: frozenset(b.variable_assignment) for n, b in blocks.items() if isinstance(b, SyntheticAssignment)}
    entry = flat.resolve(top_entry)
    # reachable part
    reach = {entry}
    todo = [entry]
    while todo:
        n = todo.pop()
        for s in succ[n]:
            if s not in reach:
                reach.add(s)
                todo.append(s)
    preds = {n: [] for n in reach}
    for n in reach:
        for s in succ[n]:
            preds[s].append(n)
    allvars = frozenset(v for a in assigns.values() for v in a) | frozenset(b.variable for b in blocks.values() if isinstance(b, SyntheticBranch))
    IN = {n: allvars for n in reach}
    IN[entry] = frozenset()
    OUT = {n: IN[n] | assigns.get(n, frozenset()) for n in reach}
    work = list(reach)
    while work:
        n = work.pop()
        if n != entry:
            new = allvars
            for p in preds[n]:
                new = new & OUT[p]
            IN[n] = new
        o = IN[n] | assigns.get(n, frozenset())
        if o != OUT[n]:
            OUT[n] = o
            work.extend(succ[n])
    nb = 0
    for n in reach:
        b = blocks[n]
        if isinstance(b, SyntheticBranch):
            nb += 1
            if b.variable not in IN[n]:
                raise Viol("V-must", f"{b.variable} is not assigned on every path from the entry to {n} (static must-analysis over the flattened result)")
            if isinstance(b, SyntheticExitingLatch):
                # search from the latch's successors, not passing assignments of the variable
                seen = set()
                todo = list(succ[n])
                while todo:
                    m = todo.pop()
                    if m in seen:
                        continue
                    seen.add(m)
                    if m == n:
                        raise Viol("V-must-latch", f"a cycle from latch {n} back to itself does not assign {b.variable}")
                    if b.variable in assigns.get(m, ()):
                        continue
                    todo.extend(succ[m])
    if stats is not None:
        # may-analysis of values, reported only
        may = {n: {} for n in reach}
        work = [entry]
        outm = {}
        cnt = 0
        while work and cnt < 20000:
            cnt += 1
            n = work.pop()
            cur = {k: set(v) for k, v in may[n].items()}
            b = blocks[n]
            if isinstance(b, SyntheticAssignment):
                for k, v in b.variable_assignment.items():
                    cur[k] = {v}
            if outm.get(n) == cur:
                continue
            outm[n] = cur
            for s in succ[n]:
                ch = False
                for k, v in cur.items():
                    t = may[s].setdefault(k, set())
                    if not v <= t:
                        t |= v
                        ch = True
                if ch or s not in outm:
                    work.append(s)
        ex = 0
        for n in reach:
            b = blocks[n]
            if isinstance(b, SyntheticBranch) and not may[n].get(b.variable, set()) <= set(b.branch_value_table):
                ex += 1
        stats["range_may_excess"] = stats.get("range_may_excess", 0) + ex
    return nb


# --------------------------------------------------------------------------
# C16 iteration and concealed view


def check_iteration(scfg: SCFG, flat: Flat | None = None):
    flat = flat or Flat(scfg)
    try:
        items = list(scfg)
    except Exception as e:  # noqa
        raise Viol("I-raise", f"iteration raised {type(e).__name__}: {e}")
    names = [k for k, _ in items]
    if len(set(names)) != len(names):
        dup = sorted({n for n in names if names.count(n) > 1})
        raise Viol("I-dup", f"iteration yields {dup[:3]} more than once")
    want = flat.all_names()
    if set(names) != want:
        raise Viol("I-set", f"iteration misses {sorted(want - set(names))[:4]} / invents {sorted(set(names) - want)[:4]}")
    for k, b in items:
        exp = flat.blocks.get(k) or flat.regions[k]
        if b is not exp:
            raise Viol("I-obj", f"iteration yields a different object for {k}")
    if names and names[0] != top_head(scfg):
        raise Viol("I-head", f"iteration starts at {names[0]}, head is {top_head(scfg)}")
    # enumerating is repeatable (no state is consumed) and agrees with the container protocol of the graph
    try:
        again = [k for k, _ in scfg]
    except Exception as e:  # noqa
        raise Viol("I-raise", f"second iteration raised {type(e).__name__}: {e}")
    if again != names:
        raise Viol("I-again", "iterating the same graph a second time yields a different sequence")
    try:
        if len(scfg) != len(scfg.graph):
            raise Viol("I-map", f"len(graph) = {len(scfg)}, it holds {len(scfg.graph)} top-level items")
        for k, b in scfg.graph.items():
            if k not in scfg or scfg[k] is not b:
                raise Viol("I-map", f"graph[{k!r}] / {k!r} in graph disagree with the graph's own items")
    except Viol:
        raise
    except Exception as e:  # noqa
        raise Viol("I-map", f"container protocol of the graph raised {type(e).__name__}: {e}")
    # every sub-graph is a graph too: iterating it yields its own hierarchy
    for rname, r in flat.regions.items():
        try:
            sub = [k for k, _ in r.subregion]
        except Exception as e:  # noqa
            raise Viol("I-sub-raise", f"iterating the sub-graph of {rname} raised {type(e).__name__}: {e}")
        want = flat.interior(rname)
        if len(set(sub)) != len(sub):
            raise Viol("I-sub-dup", f"iterating the sub-graph of {rname} yields an item twice")
        if set(sub) != want:
            raise Viol("I-sub-set", f"iterating the sub-graph of {rname} misses {sorted(want - set(sub))[:4]} / invents {sorted(set(sub) - want)[:4]}")
        if sub and sub[0] != r.header:
            raise Viol("I-sub-head", f"iterating the sub-graph of {rname} starts at {sub[0]}, its header is {r.header}")


def check_view(g: SCFG, label: str):
    """concealed view of one (sub)graph: exactly its keys, each once, head
    first, every other item after at least one of its level predecessors."""
    tg = set()
    for b in g.graph.values():
        tg.update(b.jump_targets)
    heads = [k for k in g.graph if k not in tg]
    if len(heads) != 1:
        raise Viol("I-view-head", f"level {label}: {len(heads)} predecessor-free items")
    try:
        names = list(g.concealed_region_view)
    except Exception as e:  # noqa
        raise Viol("I-view-raise", f"level {label}: view raised {type(e).__name__}: {e}")
    if len(set(names)) != len(names):
        raise Viol("I-view-dup", f"level {label}: view yields an item twice")
    if set(names) != set(g.graph):
        raise Viol("I-view-set", f"level {label}: view misses {sorted(set(g.graph) - set(names))[:4]} / invents {sorted(set(names) - set(g.graph))[:4]}")
    if names[0] != heads[0]:
        raise Viol("I-view-first", f"level {label}: view starts at {names[0]}, head is {heads[0]}")
    pos = {n: i for i, n in enumerate(names)}
    preds = {k: [] for k in g.graph}
    for k, b in g.graph.items():
        for t in b.jump_targets:
            if t in preds:
                preds[t].append(k)
    for k in names[1:]:
        if not any(pos[p] < pos[k] for p in preds[k]):
            raise Viol("I-view-order", f"level {label}: {k} is yielded before all of its predecessors")
    # the view is a Mapping over the same items, and enumerating it is repeatable
    try:
        view = g.concealed_region_view
        if list(view) != names:
            raise Viol("I-view-again", f"level {label}: enumerating the view a second time yields a different sequence")
        if len(view) != len(names):
            raise Viol("I-view-map", f"level {label}: len(view) = {len(view)}, it yields {len(names)} items")
        for k in names:
            if k not in view or view[k] is not g.graph[k]:
                raise Viol("I-view-map", f"level {label}: view[{k!r}] is not the graph's item {k!r}")
        if [k for k, _ in view.items()] != names:
            raise Viol("I-view-map", f"level {label}: view.items() enumerates differently from the view")
    except Viol:
        raise
    except Exception as e:  # noqa
        raise Viol("I-view-map", f"level {label}: Mapping protocol of the view raised {type(e).__name__}: {e}")
    follows = any(isinstance(b, RegionBlock) and any(t in g.graph for t in b.jump_targets) for b in g.graph.values())
    return follows
