"""Coverage-guided leg of the graph family (atheris / libFuzzer).

    python -m vpbt.fuzz_child '<spec as JSON>' <out.pkl>
      spec = ["fuzz", check module, seed, shard, runs, max_n, "empty"|"corpus"]              graphs
           | ["pfuzz", check module, seed, shard, runs, depth, max_runs, [features off]]     programs (through Hypothesis' fuzz_one_input)

One process = one libFuzzer campaign: `-seed` is derived from (VERIF_SEED,
shard), the corpus directory is fresh, the campaign ends after exactly <runs>
target calls.  The target decodes the bytes into a closed CFG (structure-aware:
block count, name style, one arity byte and up to two target bytes per block,
then the same deterministic repair as the Hypothesis strategy), and hands it to
the check's own evaluate() - the property's oracle runs inside the target, so
coverage guidance searches for oracle failures, not for crashes.  Failures are
collected (bucketed by signature) and the campaign goes on; the Collector
result is pickled to <out.pkl>.  Only `numba_scfg` is instrumented.

Exit codes: 0 result written; 3 atheris not importable (leg skipped, recorded
in the evidence); anything else is a harness error of the parent.
"""

from __future__ import annotations

import importlib
import os
import pickle
import sys
from pathlib import Path

VERIF = Path(__file__).resolve().parent.parent


def encode(g: dict, style_idx=0) -> bytes:
    """inverse of decode() for integer graphs {i: (succ...)} (seed corpus)."""
    n = len(g)
    out = [n - 2, style_idx]
    for i in range(n):
        ss = g[i]
        out.append({0: 6, 1: 0, 2: 1}[len(ss)])
        out.extend(ss)
    return bytes(x % 256 for x in out)


_ARITY = [1, 2, 2, 2, 1, 2, 0, 1]


def decode(data: bytes, max_n: int):
    """-> (n, raw successor lists, style index, permutation key) or None"""
    if len(data) < 3:
        return None
    n = 2 + data[0] % (max_n - 1)
    style = data[1]
    pos = 2
    raw = {}
    for i in range(n):
        if pos >= len(data):
            raw[i] = [(i + 1) % n] if i + 1 < n else []
            continue
        k = _ARITY[data[pos] % 8]
        pos += 1
        ss = []
        for _ in range(k):
            if pos < len(data):
                ss.append(data[pos] % n)
                pos += 1
        raw[i] = ss
    key = int.from_bytes(data[pos : pos + 3], "big") if pos < len(data) else 0
    return n, raw, style, key


def main():
    import json

    spec, out = json.loads(sys.argv[1]), sys.argv[2]
    kind, modname, seed, shard, runs = spec[0], spec[1], int(spec[2]), int(spec[3]), int(spec[4])
    for dep in (Path("/verif/.deps"), VERIF / ".deps"):  # the second wins; /verif/.deps serves snapshots of /verif (vp run)
        if dep.is_dir():
            sys.path.insert(0, str(dep))
    try:
        import atheris
    except Exception:
        print("NO-ATHERIS")
        sys.exit(3)
    from vpbt import core

    core.import_repo()
    for m in [k for k in sys.modules if k == "numba_scfg" or k.startswith("numba_scfg.")]:
        del sys.modules[m]
    with atheris.instrument_imports(include=["numba_scfg"]):
        import numba_scfg.core.datastructures.ast_transforms  # noqa
        import numba_scfg.core.datastructures.basic_block  # noqa
        import numba_scfg.core.datastructures.byte_flow  # noqa
        import numba_scfg.core.datastructures.scfg  # noqa
        import numba_scfg.core.transformations  # noqa
        import numba_scfg.rendering.rendering  # noqa
    import logging

    logging.disable(logging.CRITICAL)
    from vpbt import gen_graphs as gg, sweep
    from vpbt.core import Collector, h64

    mod = importlib.import_module(modname)
    col = Collector()
    state = dict(calls=0, done=False)

    def finish():
        if state["done"]:
            return
        state["done"] = True
        col.count("fuzz_target_calls", state["calls"])
        with open(out, "wb") as f:
            pickle.dump(col.result(), f)
        sys.stdout.flush()
        os._exit(0)

    cdir = Path(out + ".corpus")
    cdir.mkdir(parents=True, exist_ok=True)
    if kind == "fuzz":
        max_n, corpus_mode = int(spec[5]), spec[6]
        evaluate = mod._eval

        def target(data):
            state["calls"] += 1
            d = decode(data, max_n)
            if d is not None:
                n, raw, style, key = d
                g = gg.repair(n, raw)
                if len(g) >= 2:
                    st = gg.STYLES[style % len(gg.STYLES)]
                    named = gg.restyle(g, st, sweep._perm(len(g), key) if st in ("perm", "alpha", "gen", "zpad", "words") else None)
                    col.count("origin_fuzz")
                    evaluate(col, g, named, "fuzz")
                else:
                    col.count("fuzz_degenerate")
            else:
                col.count("fuzz_degenerate")
            if state["calls"] >= runs:
                finish()

        if corpus_mode == "corpus":
            k = 0
            for n in (3, 4, 5):
                for g in gg.enum_labelled(n, shard % 7, 7):
                    k += 1
                    if k % 97 == 0:
                        (cdir / f"s{k}").write_bytes(encode(g, k))
        max_len = 4 + 3 * max_n
    elif kind == "pfuzz":
        # programs: libFuzzer drives the Hypothesis grammar strategy of the check through fuzz_one_input
        depth, max_runs, feats_off = int(spec[5]), int(spec[6]), list(spec[7])
        t = mod.PROG_BUILD(col, ("p", seed, shard, 1, depth, max_runs, feats_off, None), origin="fuzz")
        one = t.hypothesis.fuzz_one_input

        def target(data):
            state["calls"] += 1
            one(data)
            if state["calls"] >= runs:
                finish()

        # an empty corpus never gets past Hypothesis' "ran out of data": start from pseudo-random byte strings
        # (deterministic in seed and shard) that are long enough to complete a draw
        import hashlib

        for k in range(24):
            blob = b"".join(hashlib.blake2b(repr((seed, shard, k, j)).encode(), digest_size=64).digest() for j in range(24))
            (cdir / f"r{k}").write_bytes(blob)
        max_len = 4096
    else:
        raise ValueError(kind)
    argv = [sys.argv[0], f"-seed={1 + h64(('fuzz', seed, shard)) % (2**31 - 2)}", f"-runs={runs + 100000}", f"-max_len={max_len}", "-print_final_stats=0", "-verbosity=0", "-rss_limit_mb=8192", "-timeout=3600", str(cdir)]
    atheris.Setup(argv, target)
    atheris.Fuzz()
    finish()


if __name__ == "__main__":
    main()
