"""Shared driver for the program-level checks (C07, C08, C10): Hypothesis
grammar strategy, main shards with the constructs of recorded findings
excluded by construction, one probe shard group per recorded finding."""

from __future__ import annotations

from hypothesis import HealthCheck, Phase, given, seed as hseed, settings, strategies as st

from . import gen_programs as gp
from .core import Collector, h64, load_findings
from .shrink_src import shrink_source


def recorded_features(pid):
    """features switched off in the main search: those of recorded findings
    (sig '<pid>:mismatch:<feature>')."""
    out = []
    for f in load_findings(pid):
        parts = f.sig.split(":")
        if len(parts) == 3 and parts[1] == "mismatch" and parts[2] in gp.DEFAULT_FEATURES:
            out.append(parts[2])
    return sorted(set(out))


def mismatch_sig(pid, feats, recorded):
    tags = sorted(feats & set(recorded))
    return f"{pid}:mismatch:" + ("+".join(tags) if tags else "plain")


def make(pid, check_program, nontrivial, extra_feats=None):
    """check_program(src, arg_idx, depth, max_runs, recorded) -> (status, sig, msg, stats)
    nontrivial(status, feats, stats) -> bool"""

    def build(col, spec, origin="hyp"):
        """the @given test of one shard (called by run(); driven by libFuzzer through fuzz_one_input in fuzz_child)"""
        _, seed, shard, examples, depth, max_runs, feats_off, probe = spec
        recorded = recorded_features(pid)
        feats = dict(extra_feats or {})
        feats.update({k: False for k in feats_off})
        if probe:
            feats[probe] = True

        @hseed(h64((pid, seed, shard, probe)))
        @settings(max_examples=examples, database=None, deadline=None, phases=[Phase.generate], suppress_health_check=list(HealthCheck))
        @given(src=gp.programs(feats), arg_idx=st.lists(st.integers(0, 5), min_size=2, max_size=2, unique=True))
        def t(src, arg_idx):
            status, sig, msg, stats = check_program(src, arg_idx, depth, max_runs, recorded)
            f = gp.features(src)
            col.count("status_" + status)
            for k, v in stats.items():
                if isinstance(v, int):
                    col.count("n_" + k, v)
            if status == "fail":
                col.fail(sig, msg, dict(src=src, arg_idx=list(arg_idx), depth=depth, max_runs=max_runs), len(src))
            classes = sorted(t_ for t_ in f if not t_.startswith("depth")) + [status] + (["probe:" + probe] if probe else ["main"]) + ["origin:" + origin]
            col.case(src, len(src), nontrivial(status, f, stats), sample=dict(src=src, status=status), classes=classes)

        return t

    def run_templates(spec):
        col = Collector()
        recorded = recorded_features(pid)
        _, depth, max_runs = spec[:3]
        if len(spec) > 3:
            # a slice of the exhaustive jump-arm family: (shard, nshards)
            progs = gp.jump_arm_programs()[spec[3] :: spec[4]]
        else:
            progs = gp.template_programs()
        for label, src in progs:
            status, sig, msg, stats = check_program(src, [0, 1], depth, max_runs, recorded)
            col.count("status_" + status)
            if status == "fail":
                col.fail(sig, f"[template {label}] {msg}", dict(src=src, arg_idx=[0, 1], depth=depth, max_runs=max_runs), len(src))
            col.case(src, len(src), status == "ok", sample=dict(template=label, status=status), classes=["origin:template", status])
        return col.result()

    def run(spec):
        if spec[0] == "tmpl":
            return run_templates(spec)
        if spec[0] == "pfuzz":
            from .sweep import run_fuzz

            return run_fuzz(spec)
        col = Collector()
        build(col, spec)()
        return col.result()

    run.build = build

    def plan_(tier, seed, quick=(120, 8, 40, 40, 2), thorough=(1300, 12, 160, 400, 4), fuzz_mod=None):
        off = recorded_features(pid)
        specs = []
        if fuzz_mod:
            # coverage-guided campaigns over the same grammar (constructs of recorded findings excluded as in the main shards)
            d_, r_ = (quick[1], quick[2]) if tier == "quick" else (thorough[1], thorough[2])
            specs += [("pfuzz", fuzz_mod, seed, s, 250 if tier == "quick" else 2500, d_, r_, off) for s in range(8 if tier == "quick" else 16)]
        ex, depth, runs, pex, pshards = quick if tier == "quick" else thorough
        specs.append(("tmpl", max(depth, 10), max(runs, 60)))
        # the exhaustive jump-arm family: every 3rd program (offset by the seed) in the quick tier, all in the thorough tier
        if tier == "quick":
            specs += [("tmpl", 8, 40, (seed % 3) + 3 * s, 24) for s in range(8)]
        else:
            specs += [("tmpl", 10, 60, s, 16) for s in range(16)]
        nsh = 16 if tier == "quick" else 32
        specs += [("p", seed, s, ex, depth, runs, off, None) for s in range(nsh)]
        for f in off:
            specs += [("p", seed, 100 + s, pex, max(6, depth - 2), max(24, runs // 2), off, f) for s in range(pshards)]
        return specs

    def replay(inp):
        status, sig, msg, _ = check_program(inp["src"], inp.get("arg_idx", [0, 1]), inp.get("depth", 8), inp.get("max_runs", 40), recorded_features(pid))
        return [(sig, msg)] if status == "fail" else []

    def shrink(fail):
        inp = fail["replay"]
        sig = fail["sig"]

        def still(src):
            return any(s == sig for s, _ in replay(dict(inp, src=src)))

        small = shrink_source(inp["src"], still)
        if len(small) < len(inp["src"]):
            r = [m for s, m in replay(dict(inp, src=small)) if s == sig]
            if r:
                fail = dict(fail, replay=dict(inp, src=small), msg=r[0], size=len(small))
        return fail

    return run, plan_, replay, shrink
