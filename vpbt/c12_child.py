"""Child of C12: computes canonical dumps of every stage for the inputs in a
JSON file and prints {index: digest...}.  Run with a given PYTHONHASHSEED.
No Hypothesis here."""

import ast
import hashlib
import json
import logging
import sys

logging.disable(logging.CRITICAL)
sys.setrecursionlimit(10000)


def digest(obj):
    return hashlib.sha256(json.dumps(obj, sort_keys=False, default=repr).encode()).hexdigest()[:24]


def main(path, reverse=False):
    from numba_scfg.core.datastructures.ast_transforms import AST2SCFG, SCFG2AST
    from numba_scfg.core.datastructures.basic_block import SyntheticBlock
    from numba_scfg.core.datastructures.byte_flow import ByteFlow

    from vpbt import bytecode_model as bm, canon, gen_graphs as gg, models as M

    from numba_scfg.core.datastructures.ast_transforms import SCFG2ASTTransformer

    shared = SCFG2ASTTransformer()  # one transformer object for all source inputs of this process
    inputs = json.load(open(path))
    if reverse:
        inputs = inputs[::-1]
    out = []
    corpus = None
    for inp in inputs:
        parts = []
        nsynth = 0
        try:
            if inp["kind"] == "graph":
                g = gg.graph_from_json(inp["graph"])
                for stage in ("closed", "loop", "branch"):
                    scfg = M.mk_scfg(g, inp.get("payload", "plain"))
                    try:
                        M.apply_stage(scfg, stage)
                        parts.append([stage, canon.dump(scfg, ordered=True), list(scfg.name_gen.kinds.items()), scfg.region.name])
                        if stage == "branch":
                            nsynth = sum(1 for b in M.Flat(scfg).blocks.values() if isinstance(b, SyntheticBlock))
                    except Exception as e:
                        parts.append([stage, "EXC", type(e).__name__])
            elif inp["kind"] == "source":
                src = inp["src"]
                try:
                    scfg = AST2SCFG(src)
                    parts.append(["front", canon.dump(scfg, ordered=True)])
                    scfg.restructure()
                    parts.append(["restructured", canon.dump(scfg, ordered=True), list(scfg.name_gen.kinds.items())])
                    nsynth = sum(1 for b in M.Flat(scfg).blocks.values() if isinstance(b, SyntheticBlock))
                    try:
                        parts.append(["regen-shared", ast.unparse(shared.transform(original=ast.parse(src).body[0], scfg=scfg))])
                    except Exception as e:
                        parts.append(["regen-shared", "raised", type(e).__name__])
                    parts.append(["regen", ast.unparse(SCFG2AST(src, scfg))])
                except Exception as e:
                    parts.append(["EXC", type(e).__name__, str(e)[:80]])
            elif inp["kind"] == "bytecode":
                if corpus is None:
                    corpus = {}
                mod = inp["function"].split(":")[0]
                if mod not in corpus:
                    corpus[mod] = dict(bm.corpus_codes(modules=[mod]))
                code = corpus[mod].get(inp["function"])
                if code is None:
                    parts.append(["missing"])
                else:
                    try:
                        bf = ByteFlow.from_bytecode(code)
                        parts.append(["front", canon.dump(bf.scfg, ordered=True)])
                        bf.scfg.restructure()
                        parts.append(["restructured", canon.dump(bf.scfg, ordered=True), list(bf.scfg.name_gen.kinds.items())])
                        nsynth = sum(1 for b in M.Flat(bf.scfg).blocks.values() if isinstance(b, SyntheticBlock))
                    except Exception as e:
                        parts.append(["EXC", type(e).__name__, str(e)[:80]])
        except Exception as e:  # harness problem: make it visible, not silent
            parts.append(["HARNESS", type(e).__name__, str(e)[:200]])
        raised = sum(1 for x in parts if x and (x[0] == "EXC" or (len(x) > 1 and x[1] == "EXC")))
        out.append([digest(parts), nsynth, parts if inp.get("verbose") else None, raised])
    if reverse:
        out = out[::-1]
    print(json.dumps(out))


if __name__ == "__main__":
    main(sys.argv[1], len(sys.argv) > 2 and sys.argv[2] == "reverse")
