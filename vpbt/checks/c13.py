"""C13 - graph queries return exactly what their definitions prescribe.

Domain G2: arbitrary block graphs (out-degree <= 3, self loops, duplicate
targets, targets outside the graph, unreachable blocks, several heads), no
declared back edges.  Oracle M6: brute force from the definitions.
"""

from __future__ import annotations

import itertools

from hypothesis import HealthCheck, Phase, given, seed as hseed, settings, strategies as st

from numba_scfg.core import transformations as T
from numba_scfg.core.datastructures.basic_block import BasicBlock, RegionBlock
from numba_scfg.core.datastructures.scfg import SCFG

from vpbt import gen_graphs as gg, models as M
from vpbt.core import Collector, exc_sig, h64, library_raised

PID = "C13"
RULE = (
    "Cases: (flat mode) block graphs over names 0..n-1 plus external names X,Y with ordered target tuples of length 0..3 "
    "(self loops, duplicates, external targets, unreachable blocks, several heads allowed): exhaustive n<=3 with out-degree<=3 "
    "(614125 graphs) sliced in the quick tier and complete in the thorough tier, exhaustive n=4 with out-degree<=2 sliced; "
    "Hypothesis graphs n<=12 (quick) / n<=24 (thorough); all non-empty subsets for the subset queries when n<=5, 24 drawn subsets otherwise. "
    "(hierarchy mode) every sub-region graph of restructured closed CFGs from the shared graph sweep. "
    "Oracle: reachability by closure, SCCs as classes of mutual reachability, dominance by node deletion, immediate dominator as the "
    "closest strict dominator. Further legs: every query is asked again after all others and the graph must be untouched; histories (one graph object queried, edited through add_block / remove_blocks / the library's re-target idiom / direct writes to the graph mapping, queried again after every edit); dense three-way graphs; graphs with simple paths of 1301-5000 blocks under the default recursion limit. Non-trivial = the graph has a non-trivial SCC, an external target or a duplicate edge. Distinct = hash of the graph."
)
ASSUME = [
    "dominators are judged only on graphs with a predecessor-free block (else the documented RuntimeError is required); immediate dominators only when every block is reachable from an entry (callers' domain)",
    "the documented fallback of find_headers_and_entries (no outside entry => the graph's head) is judged only when the subset contains the head",
]

EXT = ("X", "Y")

# --------------------------------------------------------------------------
# M6 brute force


def closure(g):
    """reach[a] = set of names reachable from a by >= 1 edge (external names
    included as end points)."""
    reach = {}
    for a in g:
        seen = set()
        todo = list(g[a])
        while todo:
            x = todo.pop()
            if x in seen:
                continue
            seen.add(x)
            if x in g:
                todo.extend(g[x])
        reach[a] = seen
    return reach


def bf_scc(g, reach):
    comps = []
    done = set()
    for a in g:
        if a in done:
            continue
        c = {a} | {b for b in g if b != a and b in reach[a] and a in reach[b]}
        done |= c
        comps.append(frozenset(c))
    return set(comps)


def bf_dom(g, roots, succ):
    """dom[b] = set of a such that every path root->b passes a (by deletion)."""
    nodes = list(g)

    def reachable(without):
        seen = set()
        todo = [r for r in roots if r != without]
        while todo:
            x = todo.pop()
            if x in seen or x == without:
                continue
            seen.add(x)
            todo.extend(t for t in succ[x] if t != without)
        return seen

    base = reachable(None)
    dom = {}
    for b in nodes:
        dom[b] = set()
    for a in nodes:
        r = reachable(a)
        for b in nodes:
            if b == a or b not in r:
                # a deleted => b unreachable (or b unreachable anyway: vacuous)
                dom[b].add(a)
    return dom, base


def check_graph(g, subsets, col=None):
    """g: {name: tuple(targets)}; raises M.Viol."""
    scfg = SCFG({k: BasicBlock(name=k, _jump_targets=tuple(v)) for k, v in g.items()})
    check_queries(scfg, g, subsets, meta=True)


def check_queries(scfg, g, subsets, meta=True, parent_entries=None, g_all=None):
    """g: edges without declared back edges; g_all: with them (the headers
    query deliberately follows back edges, all other queries do not)."""
    names = list(g)
    ga = g_all or g
    reach = closure(g)
    before = [(k, type(b).__name__, tuple(b._jump_targets), tuple(b.backedges)) for k, b in scfg.graph.items()]
    # --- SCC
    try:
        got = scfg.compute_scc()
    except Exception as e:
        raise M.Viol("Q-scc-raise", f"compute_scc raised {type(e).__name__}: {e}")
    gots = [frozenset(c) for c in got]
    if len(set(gots)) != len(gots) or set(gots) != bf_scc(g, reach):
        raise M.Viol("Q-scc", f"compute_scc {sorted(map(sorted, gots))} != classes of mutual reachability {sorted(map(sorted, bf_scc(g, reach)))}")
    # --- reachability
    ends = set(names) | {t for v in g.values() for t in v}
    for a in names:
        for b in sorted(ends):
            try:
                r = scfg.is_reachable_dfs(a, b)
            except Exception as e:
                raise M.Viol("Q-reach-raise", f"is_reachable_dfs({a},{b}) raised {type(e).__name__}")
            if bool(r) != (b in reach[a]):
                raise M.Viol("Q-reach", f"is_reachable_dfs({a},{b}) = {r}, a path of >=1 edge {'exists' if b in reach[a] else 'does not exist'}")
    # --- head
    tg = {t for v in g.values() for t in v}
    heads = [k for k in names if k not in tg]
    try:
        h = scfg.find_head()
        raised = False
    except AssertionError:
        raised = True
    except Exception as e:
        raise M.Viol("Q-head-raise", f"find_head raised {type(e).__name__}")
    if len(heads) == 1:
        if raised or h != heads[0]:
            raise M.Viol("Q-head", f"find_head = {None if raised else h}, the unique predecessor-free block is {heads[0]}")
    elif not raised:
        raise M.Viol("Q-head-ambiguous", f"find_head returned {h} although {len(heads)} blocks have no predecessor")
    # --- subset queries
    for sub in subsets:
        sub = set(sub)
        exp_h = sorted({t for o in names if o not in sub for t in ga[o] if t in sub})
        exp_e = sorted({o for o in names if o not in sub and any(t in sub for t in ga[o])})
        fallback = not exp_h
        if fallback:
            if len(heads) != 1 or heads[0] not in sub:
                pass  # outside the judged domain
            else:
                try:
                    gh, ge = scfg.find_headers_and_entries(set(sub))
                except Exception as e:
                    raise M.Viol("Q-headers-raise", f"find_headers_and_entries({sorted(sub)}) raised {type(e).__name__}: {e}")
                want_e = sorted(parent_entries) if (not meta and parent_entries is not None) else []
                if list(gh) != [heads[0]] or sorted(ge) != want_e:
                    raise M.Viol("Q-headers-fallback", f"find_headers_and_entries({sorted(sub)}) = {gh},{ge}; expected head [{heads[0]}] and entries {want_e}")
        else:
            try:
                gh, ge = scfg.find_headers_and_entries(set(sub))
            except Exception as e:
                raise M.Viol("Q-headers-raise", f"find_headers_and_entries({sorted(sub)}) raised {type(e).__name__}: {e}")
            if list(gh) != exp_h or list(ge) != exp_e:
                raise M.Viol("Q-headers", f"find_headers_and_entries({sorted(sub)}) = {gh},{ge}; definition gives {exp_h},{exp_e}")
        exp_x = sorted({i for i in sub if not g[i] or any(t not in sub for t in g[i])})
        exp_t = sorted({t for i in sub for t in g[i] if t not in sub})
        try:
            gx, gt = scfg.find_exiting_and_exits(set(sub))
        except Exception as e:
            raise M.Viol("Q-exits-raise", f"find_exiting_and_exits({sorted(sub)}) raised {type(e).__name__}: {e}")
        if list(gx) != exp_x or list(gt) != exp_t:
            raise M.Viol("Q-exits", f"find_exiting_and_exits({sorted(sub)}) = {gx},{gt}; definition gives {exp_x},{exp_t}")
    # --- dominators
    succ = {k: [t for t in g[k] if t in g] for k in names}
    pred = {k: [] for k in names}
    for k in names:
        for t in succ[k]:
            pred[t].append(k)
    entries = [k for k in names if not pred[k]]
    exits = [k for k in names if not succ[k]]
    for label, fn, roots, fw in (("dom", T._doms, entries, succ), ("postdom", T._post_doms, exits, pred)):
        try:
            got = fn(scfg)
            err = None
        except RuntimeError as e:
            err = e
        except Exception as e:
            raise M.Viol(f"Q-{label}-raise", f"{fn.__name__} raised {type(e).__name__}: {e}")
        if not roots:
            if err is None:
                raise M.Viol(f"Q-{label}-noroot", f"{fn.__name__} returned a result although no block can seed it")
            continue
        if err is not None:
            raise M.Viol(f"Q-{label}-raise", f"{fn.__name__} raised RuntimeError although seeds exist: {err}")
        exp, base = bf_dom(g, roots, fw)
        if set(got) != set(names):
            raise M.Viol(f"Q-{label}-keys", f"{fn.__name__} has keys {sorted(got)}")
        for b in names:
            if set(got[b]) != exp[b]:
                raise M.Viol(f"Q-{label}", f"{fn.__name__}[{b}] = {sorted(got[b])}; by deletion: {sorted(exp[b])}")
        if len(base) == len(names):
            # immediate dominators: closest strict dominator
            try:
                im = T._imm_doms({k: set(v) for k, v in got.items()})
            except Exception as e:
                raise M.Viol(f"Q-i{label}-raise", f"_imm_doms raised {type(e).__name__}: {e}")
            for b in names:
                strict = exp[b] - {b}
                if not strict:
                    if b in im:
                        raise M.Viol(f"Q-i{label}", f"_imm_doms gives {im[b]} for {b} which has no strict dominator")
                    continue
                # closest: the strict dominator dominated by all other strict dominators
                closest = [a for a in strict if all(c in exp[a] for c in strict)]
                if len(closest) != 1 or im.get(b) != closest[0]:
                    raise M.Viol(f"Q-i{label}", f"_imm_doms[{b}] = {im.get(b)}, closest strict dominator is {closest}")
    # --- queries are pure: asked again after all the others they answer the same, and the graph is untouched
    try:
        again = [frozenset(c) for c in scfg.compute_scc()]
    except Exception as e:
        raise M.Viol("Q-scc-raise", f"second compute_scc raised {type(e).__name__}: {e}")
    if sorted(map(sorted, again)) != sorted(map(sorted, gots)):
        raise M.Viol("Q-again", "compute_scc answers differently when asked a second time")
    for a in names[:3]:
        for b in sorted(ends)[:4]:
            if bool(scfg.is_reachable_dfs(a, b)) != (b in reach[a]):
                raise M.Viol("Q-again", f"is_reachable_dfs({a},{b}) answers differently when asked a second time")
    after = [(k, type(b).__name__, tuple(b._jump_targets), tuple(b.backedges)) for k, b in scfg.graph.items()]
    if after != before:
        raise M.Viol("Q-mutates", "a query changed the graph it was asked about")


# --------------------------------------------------------------------------
# domain


def options(n, maxdeg):
    syms = [str(i) for i in range(n)] + [EXT[0]]
    out = []
    for d in range(maxdeg + 1):
        out.extend(itertools.product(syms, repeat=d))
    return out


def all_subsets(names):
    for r in range(1, len(names) + 1):
        yield from itertools.combinations(names, r)


def nontrivial(g):
    reach = closure(g)
    if any(a in reach[a] for a in g):
        return True
    if any(t not in g for v in g.values() for t in v):
        return True
    return any(len(set(v)) != len(v) for v in g.values())


def gstr(g):
    return "; ".join(f"{k}>{','.join(v)}" for k, v in g.items())


def _eval_flat(col, g, subsets):
    try:
        check_graph(g, subsets)
        col.count("subset_queries", 2 * len(subsets))
    except M.Viol as v:
        col.fail(f"C13:{v.clause}", v.msg, dict(mode="flat", graph=[[k, list(t)] for k, t in g.items()], subsets=[sorted(s) for s in subsets]), len(g))
    col.case(tuple((k, v) for k, v in g.items()), len(g), nontrivial(g), sample=dict(mode="flat", graph=gstr(g)), classes=["flat", f"n={len(g)}" if len(g) <= 4 else "n>4"])


@st.composite
def block_graphs(draw, max_n):
    n = draw(st.integers(1, max_n))
    names = [str(i) for i in range(n)]
    syms = names + list(EXT)
    g = {}
    dense = draw(st.integers(0, 3)) == 0  # a quarter of the graphs: (almost) every block has three successors
    for k in names:
        d = draw(st.sampled_from([3, 3, 3, 2])) if dense else draw(st.integers(0, 3))
        g[k] = tuple(draw(st.sampled_from(syms)) if draw(st.integers(0, 9)) else k for _ in range(d))
    return g


# --------------------------------------------------------------------------
# histories: one graph object queried, edited, queried again


def run_history(g0, ops):
    """g0: initial graph; ops: list of (kind, name, targets).  After the
    construction and after every edit all queries are asked of the SAME graph
    object and judged against the graph as it then is.  raises M.Viol"""
    scfg = SCFG({k: BasicBlock(name=k, _jump_targets=tuple(v)) for k, v in g0.items()})

    def current():
        return {k: tuple(b._jump_targets) for k, b in scfg.graph.items()}

    def ask(step):
        g = current()
        if not g:
            return
        names = list(g)
        subs = list(all_subsets(names)) if len(names) <= 4 else [tuple(names), tuple(names[:2]), tuple(names[1:]), tuple(names[::2])]
        try:
            check_queries(scfg, g, subs, meta=True)
        except M.Viol as v:
            raise M.Viol(v.clause, f"after {step}: {v.msg}")

    ask("construction")
    for i, (kind, name, targets) in enumerate(ops):
        if kind == "add":  # new or replaced block through the public method
            scfg.add_block(BasicBlock(name=name, _jump_targets=tuple(targets)))
        elif kind == "retarget" and name in scfg.graph:  # the library's own idiom
            scfg.add_block(scfg.graph.pop(name).replace_jump_targets(jump_targets=tuple(targets)))
        elif kind == "remove" and name in scfg.graph and len(scfg.graph) > 1:
            scfg.remove_blocks({name})
        elif kind == "set":  # the graph mapping written directly (it is a public field; the library does so itself)
            scfg.graph[name] = BasicBlock(name=name, _jump_targets=tuple(targets))
        elif kind == "pop" and name in scfg.graph and len(scfg.graph) > 1:
            scfg.graph.pop(name)
        else:
            continue
        ask(f"edit #{i + 1} {kind}({name}, {list(targets)})")


@st.composite
def histories(draw):
    g0 = draw(block_graphs(5))
    names = list(g0) + ["5", "6"]
    syms = names + list(EXT)
    ops = []
    for _ in range(draw(st.integers(1, 4))):
        kind = draw(st.sampled_from(["add", "retarget", "retarget", "remove", "set", "set", "pop"]))
        name = draw(st.sampled_from(names))
        targets = tuple(draw(st.sampled_from(syms)) for _ in range(draw(st.integers(0, 3))))
        ops.append((kind, name, targets))
    return g0, ops


def _run_hist(spec):
    _, seed, shard, examples = spec
    col = Collector()

    @hseed(h64(("c13hist", seed, shard)))
    @settings(max_examples=examples, database=None, deadline=None, phases=[Phase.generate], suppress_health_check=list(HealthCheck))
    @given(h=histories())
    def t(h):
        g0, ops = h
        try:
            run_history(g0, ops)
        except M.Viol as v:
            col.fail(f"C13:hist:{v.clause}", v.msg, dict(mode="history", graph=[[k, list(t_)] for k, t_ in g0.items()], ops=[[k, n, list(t_)] for k, n, t_ in ops]), len(g0) + len(ops))
        col.count("history_steps", len(ops))
        col.case(("hist", tuple(g0.items()), tuple(ops)), len(g0) + len(ops), len(ops) >= 2, sample=dict(mode="history", graph=gstr(g0), ops=[f"{k}({n},{list(t_)})" for k, n, t_ in ops]), classes=["history"])

    t()
    return col.result()


# --------------------------------------------------------------------------
# long graphs: simple paths far longer than the interpreter's default recursion limit


def _long_graphs(n):
    chain = {str(i): ((str(i + 1),) if i + 1 < n else ()) for i in range(n)}
    loops = {}
    for i in range(0, n - 1, 2):  # consecutive two-block loops: i <-> i+1, then on to i+2
        loops[str(i)] = (str(i + 1),)
        loops[str(i + 1)] = (str(i), str(i + 2)) if i + 2 < n else (str(i),)
    if n % 2:
        loops[str(n - 1)] = ()
    ladder = {}
    i = 0
    while i + 3 < n:
        ladder[str(i)], ladder[str(i + 1)], ladder[str(i + 2)] = (str(i + 1), str(i + 2)), (str(i + 3),), (str(i + 3),)
        i += 3
    for j in range(i, n):
        ladder[str(j)] = (str(j + 1),) if j + 1 < n else ()
    ring = {str(i): (str((i + 1) % n),) for i in range(n)}
    return dict(chain=chain, loops=loops, ladder=ladder, ring=ring)


def check_long(label, g):
    """queries on a graph with a simple path of > 1000 blocks, under the interpreter's DEFAULT recursion limit (the
    harness itself runs with a larger one); expected values from gen_graphs' own iterative SCC and a plain BFS."""
    import sys

    names = list(g)
    idx = {k: i for i, k in enumerate(names)}
    intg = {idx[k]: tuple(idx[t] for t in v) for k, v in g.items()}
    want_scc = {frozenset(names[i] for i in c) for c in gg.sccs(intg)}

    def bfs(a):
        seen, todo = set(), list(g[a])
        while todo:
            x = todo.pop()
            if x not in seen:
                seen.add(x)
                todo.extend(g.get(x, ()))
        return seen

    scfg = SCFG({k: BasicBlock(name=k, _jump_targets=tuple(v)) for k, v in g.items()})
    old = sys.getrecursionlimit()
    sys.setrecursionlimit(1000)
    try:
        try:
            got = {frozenset(c) for c in scfg.compute_scc()}
        except Exception as e:
            raise M.Viol(f"Q-scc-raise:{type(e).__name__}", f"{label} ({len(g)} blocks): compute_scc raised {type(e).__name__}")
        if got != want_scc:
            raise M.Viol("Q-scc", f"{label} ({len(g)} blocks): compute_scc gives {len(got)} components, mutual reachability {len(want_scc)}")
        for a, b in ((names[0], names[-1]), (names[-1], names[0]), (names[len(names) // 2], names[len(names) // 2]), (names[1], names[-2])):
            try:
                r = scfg.is_reachable_dfs(a, b)
            except Exception as e:
                raise M.Viol(f"Q-reach-raise:{type(e).__name__}", f"{label} ({len(g)} blocks): is_reachable_dfs({a},{b}) raised {type(e).__name__}")
            if bool(r) != (b in bfs(a)):
                raise M.Viol("Q-reach", f"{label} ({len(g)} blocks): is_reachable_dfs({a},{b}) = {r}")
        tg = {t for v in g.values() for t in v}
        heads = [k for k in names if k not in tg]
        if len(heads) == 1:
            try:
                h = scfg.find_head()
            except Exception as e:
                raise M.Viol(f"Q-head-raise:{type(e).__name__}", f"{label}: find_head raised {type(e).__name__}")
            if h != heads[0]:
                raise M.Viol("Q-head", f"{label}: find_head = {h}")
            for fn in (T._doms, T._post_doms) if not label.startswith("ladder") else ():  # quadratic on the ladder: seconds
                try:
                    d = fn(scfg)
                except Exception as e:
                    raise M.Viol(f"Q-dom-raise:{type(e).__name__}", f"{label} ({len(g)} blocks): {fn.__name__} raised {type(e).__name__}")
                if set(d) != set(names):
                    raise M.Viol("Q-dom-keys", f"{label}: {fn.__name__} has {len(d)} keys for {len(names)} blocks")
            if label.startswith("chain"):
                d = T._doms(scfg)
                k = names[len(names) // 2]
                if set(d[k]) != set(names[: len(names) // 2 + 1]):
                    raise M.Viol("Q-dom", f"{label}: dominators of the middle block of a chain are not exactly the blocks before it")
    finally:
        sys.setrecursionlimit(old)


def _run_long(spec):
    col = Collector()
    for n in spec[1]:
        for label, g in _long_graphs(n).items():
            lab = f"{label}{n}"
            try:
                check_long(lab, g)
            except M.Viol as v:
                col.fail(f"C13:long:{v.clause}", v.msg, dict(mode="long", shape=label, n=n), 10)
            col.case(("long", label, n), n, True, sample=dict(mode="long", shape=label, blocks=n), classes=["long"])
    return col.result()


def run(spec):
    col = Collector()
    kind = spec[0]
    if kind == "long":
        return _run_long(spec)
    if kind == "hist":
        return _run_hist(spec)
    if kind == "exh":
        _, n, maxdeg, shard, nshards, stride, off = spec
        opts = options(n, maxdeg)
        names = [str(i) for i in range(n)]
        subs = list(all_subsets(names))
        k = 0
        for combo in itertools.product(opts, repeat=n):
            k += 1
            if k % nshards != shard:
                continue
            if (k // nshards) % stride != off % stride:
                continue
            _eval_flat(col, dict(zip(names, combo)), subs)
    elif kind == "hyp":
        _, seed, shard, examples, max_n = spec

        @hseed(h64(("c13", seed, shard)))
        @settings(max_examples=examples, database=None, deadline=None, phases=[Phase.generate], suppress_health_check=[HealthCheck.too_slow, HealthCheck.data_too_large])
        @given(g=block_graphs(max_n), data=st.data())
        def t(g, data):
            names = list(g)
            if len(names) <= 5:
                subs = list(all_subsets(names))
            else:
                subs = [tuple(data.draw(st.lists(st.sampled_from(names), min_size=1, max_size=len(names), unique=True))) for _ in range(12)]
                # bias: SCCs, dominator sub-trees and complements
                reach = closure(g)
                for c in bf_scc(g, reach):
                    subs.append(tuple(sorted(c)))
                    comp = tuple(sorted(set(names) - c))
                    if comp:
                        subs.append(comp)
                for a in names[:6]:
                    s = tuple(sorted({a} | {b for b in reach[a] if b in g}))
                    subs.append(s)
            _eval_flat(col, g, subs)

        t()
    elif kind in ("enum", "canon", "corpus", "hypg"):
        from vpbt import sweep

        sp = ("hyp",) + spec[1:] if kind == "hypg" else spec

        def ev(col_, intg, g, origin):
            col_.count("origin_" + origin)
            _eval_hier(col_, g, origin)

        def visit(intg, named, origin):
            ev(col, intg, named, origin)

        sweep.iterate(sp, visit)
    return col.result()


def _eval_hier(col, g, origin):
    """queries on every sub-region graph of the restructured graph."""
    scfg = M.mk_scfg(g)
    try:
        scfg.restructure()
    except Exception as e:
        if not library_raised(e):
            raise
        col.count("not_evaluated_stage_raised")
        return
    flat = M.Flat(scfg)
    n = 0
    deep = False
    try:
        for rname, r in flat.regions.items():
            sub = r.subregion
            sg = {k: tuple(b.jump_targets) for k, b in sub.graph.items()}
            names = list(sg)
            subs = list(all_subsets(names)) if len(names) <= 4 else [tuple(names), tuple(names[:1]), tuple(names[1:])]
            # documented fallback: the entries of a region without entries in
            # its own parent graph are those of the enclosing region, upwards
            cur = rname
            while True:
                home = flat.home[cur]
                pe = sorted(k for k, b in home.graph.items() if cur in b._jump_targets)
                if pe or flat.parent[cur] is None:
                    break
                cur = flat.parent[cur]
            sga = {k: tuple(b._jump_targets) for k, b in sub.graph.items()}
            check_queries(sub, sg, subs, meta=False, parent_entries=pe, g_all=sga)
            n += 1
            deep = deep or flat.parent[rname] is not None
    except M.Viol as v:
        col.fail(f"C13:hier:{v.clause}", v.msg, dict(mode="hier", graph=gg.graph_to_json(g)), len(g))
    col.count("subregion_graphs", n)
    col.case(("hier", gg.gkey(g)), len(g), n > 0, sample=dict(mode="hier", graph=gg.graph_to_str(g), subregion_graphs=n, origin=origin), classes=["hier", "hier_nested" if deep else "hier_flat"])


def plan(tier, seed):
    specs = []
    if tier == "quick":
        specs += [("exh", 1, 3, 0, 1, 1, 0), ("exh", 2, 3, 0, 1, 1, 0)]
        specs += [("exh", 3, 3, s, 16, 8, seed) for s in range(16)]
        specs += [("exh", 4, 2, s, 16, 40, seed) for s in range(16)]
        specs += [("hyp", seed, s, 250, 12) for s in range(16)]
        specs += [("enum", n, 0, 1, 1, 0) for n in (3, 4)]
        specs += [("enum", 5, s, 16, 24, seed % 24) for s in range(16)]
        specs += [("hypg", seed, s, 60, 14) for s in range(16)]
        specs += [("hist", seed, s, 120) for s in range(8)]
        specs += [("long", [1301]), ("long", [2102])]
    else:
        specs += [("long", [1301]), ("long", [2102]), ("long", [5000])]
        specs += [("hist", seed, s, 2500) for s in range(16)]
        specs += [("exh", 1, 3, 0, 1, 1, 0), ("exh", 2, 3, 0, 1, 1, 0)]
        specs += [("exh", 3, 3, s, 32, 1, 0) for s in range(32)]
        specs += [("exh", 4, 2, s, 32, 2, seed) for s in range(32)]
        specs += [("hyp", seed, s, 3000, 24) for s in range(32)]
        specs += [("enum", n, 0, 1, 1, 0) for n in (3, 4)]
        specs += [("enum", 5, s, 16, 2, seed % 2) for s in range(16)]
        specs += [("hypg", seed, s, 1500, 30) for s in range(32)]
        specs += [("corpus", s, 16, 10**9) for s in range(16)]
    return specs


def replay(inp):
    try:
        if inp.get("mode") == "long":
            try:
                check_long(f"{inp['shape']}{inp['n']}", _long_graphs(inp["n"])[inp["shape"]])
            except M.Viol as v:
                return [(f"C13:long:{v.clause}", v.msg)]
            return []
        if inp.get("mode") == "hier":
            col = Collector()
            _eval_hier(col, gg.graph_from_json(inp["graph"]), "replay")
            return [(s, f["msg"]) for s, f in col.failures.items()]
        g = {k: tuple(v) for k, v in inp["graph"]}
        if inp.get("mode") == "history":
            try:
                run_history(g, [(k, n, tuple(t_)) for k, n, t_ in inp["ops"]])
            except M.Viol as v:
                return [(f"C13:hist:{v.clause}", v.msg)]
            return []
        check_graph(g, [tuple(s) for s in inp["subsets"]])
    except M.Viol as v:
        return [(f"C13:{v.clause}", v.msg)]
    return []
