"""C11 - unsupported source constructs are refused, never mistranslated."""

from __future__ import annotations

import ast
import copy

from hypothesis import HealthCheck, Phase, given, seed as hseed, settings, strategies as st

from numba_scfg.core.datastructures.ast_transforms import AST2SCFG, AST2SCFGTransformer

from vpbt import gen_programs as gp
from vpbt.core import Collector, h64, lib_frame

PID = "C11"
RULE = (
    "Cases: every subclass of ast.stmt of the running interpreter outside the supported set (found by reflection; a nested FunctionDef included), each with "
    "a minimal instance (from source where the grammar allows, built as a node otherwise), inserted at EVERY statement position (before each statement and "
    "at the end of each suite, unreachable positions included) of (a) five fixed skeletons (top level, if/else arms, loop body, loop else, after a loop; "
    "exhaustive: node type x position) and (b) Hypothesis-drawn programs of the supported subset (sampled positions), handed to AST2SCFG as a node list and, "
    "when it unparses, as source text, with prune on and off, and a second request on the same transformer object after a refusal; the skeleton placements also as FUNCTION OBJECTS defined in a module file (entry through inspect.getsource), and with a 1500-term expression inside the unsupported statement (deeper than the recursion limit). Oracle: NotImplementedError is raised. Non-function inputs (module-level statements, a "
    "function followed by other statements, class, async function, expression statement, empty list / string, non-AST objects) must raise and build no graph. "
    "Non-trivial = placement depth >= 1 (inside a compound statement). Distinct = hash of (program, node type, position)."
)
ASSUME = ["for non-function input any exception counts as refusal (the property demands refusal, not a type)"]

SUPPORTED = (ast.FunctionDef, ast.Assign, ast.AugAssign, ast.Expr, ast.Return, ast.Pass, ast.Break, ast.Continue, ast.If, ast.While, ast.For)

SOURCES = {
    "AsyncFunctionDef": "async def g():\n    pass",
    "ClassDef": "class K:\n    pass",
    "Delete": "del zz",
    "TypeAlias": "type T = int",
    "AnnAssign": "zz: int = 1",
    "AsyncFor": "async for q in zz:\n    pass",
    "AsyncWith": "async with zz:\n    pass",
    "With": "with zz:\n    pass",
    "Match": "match zz:\n    case 1:\n        pass",
    "Raise": "raise ValueError",
    "Try": "try:\n    pass\nexcept Exception:\n    pass",
    "TryStar": "try:\n    pass\nexcept* Exception:\n    pass",
    "Assert": "assert zz",
    "Import": "import os",
    "ImportFrom": "from os import path",
    "Global": "global zz",
    "Nonlocal": "nonlocal zz",
    "FunctionDef": "def g():\n    return 1",
}


def unsupported_types():
    out = []
    seen = set()

    def rec(cls):
        for sub in cls.__subclasses__():
            if sub in seen:
                continue
            seen.add(sub)
            rec(sub)
            if sub.__module__ in ("ast", "_ast") and not sub.__name__.startswith("_"):
                out.append(sub)

    rec(ast.stmt)
    names = sorted({c.__name__ for c in out if c not in SUPPORTED or c is ast.FunctionDef})
    return names


def minimal_instance(name):
    src = SOURCES.get(name)
    if src is not None:
        try:
            return ast.parse(src).body[0]
        except SyntaxError:
            pass
    cls = getattr(ast, name)
    # generic construction: fill required fields with harmless values
    kw = {}
    for f in cls._fields:
        if f in ("body", "orelse", "finalbody", "handlers", "cases", "decorator_list", "type_params", "targets", "names", "items", "keywords", "bases"):
            kw[f] = [ast.Pass()] if f == "body" else []
        elif f in ("name", "module"):
            kw[f] = "zz"
        elif f in ("value", "test", "target", "iter", "subject", "exc", "annotation"):
            kw[f] = ast.Name("zz", ast.Load())
        else:
            kw[f] = None
    return ast.fix_missing_locations(cls(**kw))


SKELETONS = {
    "top": "def f(a, b):\n    x = a\n    return x\n",
    "ifelse": "def f(a, b):\n    if a:\n        x = 1\n    else:\n        x = 2\n    return x\n",
    "loopbody": "def f(a, b):\n    x = 0\n    while x < a:\n        x += 1\n        if x == b:\n            break\n    return x\n",
    "loopelse": "def f(a, b):\n    for i in range(a):\n        b += i\n    else:\n        b = 0\n    return b\n",
    "afterloop": "def f(a, b):\n    for i in range(a):\n        if i:\n            continue\n        b += i\n    b -= 1\n    while b:\n        b -= 1\n    return b\n",
    # loop forms whose clauses a front end may treat specially: constant tests (the else clause can never run),
    # destructuring targets, nested else clauses
    "whiletrue_else": "def f(a, b):\n    while True:\n        a -= 1\n        if a < 0:\n            break\n    else:\n        b = 0\n    return b\n",
    "while1_else_nested": "def f(a, b):\n    while 1:\n        for i in range(a):\n            b += i\n        else:\n            return b\n    else:\n        b = 1\n    return b\n",
    "whilefalse_else": "def f(a, b):\n    while 0:\n        a -= 1\n    else:\n        b = 0\n    return b\n",
    "for_tuple_else": "def f(a, b):\n    for i, (j, k) in enumerate(a):\n        b += j\n    else:\n        b = 0\n    for [p, q] in a:\n        b -= p\n    else:\n        b = 1\n    return b\n",
    "if_constant": "def f(a, b):\n    if True:\n        b = 1\n    else:\n        b = 2\n    if 0:\n        a = 1\n    elif None:\n        a = 2\n    else:\n        a = 3\n    return b\n",
}


def positions(fn):
    """all (suite path, index, depth) insertion points of a FunctionDef."""
    out = []

    def rec(node, path, depth):
        for field in ("body", "orelse"):
            s = getattr(node, field, None)
            if not isinstance(s, list) or (field == "orelse" and not s):
                continue
            for i in range(len(s) + 1):
                out.append((path + [field], i, depth))
            for i, st_ in enumerate(s):
                if isinstance(st_, (ast.If, ast.While, ast.For)):
                    rec(st_, path + [field, i], depth + 1)

    rec(fn, [], 0)
    return out


def insert_at(tree, path, idx, node):
    t = copy.deepcopy(tree)
    cur = t[0]
    it = iter(path)
    for p in it:
        if isinstance(p, str):
            cur = getattr(cur, p)
        else:
            cur = cur[p]
    cur.insert(idx, copy.deepcopy(node))
    return t


def expect_refusal(tree, as_source=True):
    """-> None or failure message"""
    def retry(prune):
        # a refused conversion stays refused when the same transformer is asked again
        t = AST2SCFGTransformer(copy.deepcopy(tree), prune=prune)
        try:
            t.transform_to_SCFG()
        except NotImplementedError:
            pass
        else:
            return  # reported by the single-shot variants
        t.transform_to_ASTCFG()

    variants = [
        ("nodes,prune", lambda: AST2SCFGTransformer(copy.deepcopy(tree), prune=True).transform_to_SCFG()),
        ("nodes,noprune", lambda: AST2SCFGTransformer(copy.deepcopy(tree), prune=False).transform_to_ASTCFG()),
        ("retry on the same transformer", lambda: retry(True)),
    ]
    if as_source:
        try:
            src = ast.unparse(ast.fix_missing_locations(ast.Module(body=copy.deepcopy(tree), type_ignores=[])))
            ast.parse(src)
            variants.append(("source", lambda: AST2SCFG(src)))
        except Exception:
            pass
    for label, fn in variants:
        try:
            fn()
        except NotImplementedError:
            continue
        except Exception as e:
            return f"{label}: raised {type(e).__name__} ({e}) instead of NotImplementedError", f"{type(e).__name__}@{lib_frame(e)}"
        return f"{label}: accepted (a graph was built)", "accepted"
    return None


def _try(col, prog_label, src, tname, node, path, idx, depth):
    tree = ast.parse(src).body
    t2 = insert_at(tree, path, idx, node)
    r = expect_refusal(t2)
    key = (src, tname, tuple(map(str, path)), idx)
    if r:
        msg, tag = r
        col.fail(f"C11:{tname}:{tag}", f"{tname} at {path}[{idx}] of {prog_label}: {msg}", dict(src=src, node=tname, path=path, idx=idx), len(src))
    col.case(key, len(src), depth >= 1, sample=dict(program=prog_label if len(src) > 200 else src, node=tname, path=[str(p) for p in path], index=idx), classes=[tname, f"depth={min(depth, 3)}"])


NONFUNCTION = [
    ("module_statement", "x = 1\n"),
    ("def_then_statement", "def f(a):\n    return a\nx = 1\n"),
    ("statement_then_def", "x = 1\ndef f(a):\n    return a\n"),
    ("two_defs", "def f(a):\n    return a\ndef g(a):\n    return a\n"),
    ("class", "class K:\n    def f(self):\n        return 1\n"),
    ("async_def", "async def f(a):\n    return a\n"),
    ("expression", "1 + 2\n"),
    ("empty_string", ""),
    ("empty_list", []),
    ("int", 3),
    ("none", None),
    ("list_of_str", ["def f(): pass"]),
    ("lambda_expr_node", [ast.parse("lambda: 1").body[0].value]),
]


def _nonfunction(col):
    for label, inp in NONFUNCTION:
        variants = [inp]
        if isinstance(inp, str) and inp:
            variants.append(ast.parse(inp).body)
        for v in variants:
            try:
                g = AST2SCFG(copy.deepcopy(v))
                built = True
            except BaseException as e:  # any exception = refused
                built = False
                if isinstance(e, (KeyboardInterrupt, SystemExit)):
                    raise
            if built:
                col.fail(f"C11:nonfunction:{label}", f"non-function input {label} ({type(v).__name__}) was accepted: {len(g.graph)} blocks", dict(nonfunction=label), 1)
            col.case(("nonfunction", label, type(v).__name__), 1, True, sample=dict(nonfunction=label, form=type(v).__name__), classes=["nonfunction"])


# --------------------------------------------------------------------------
# less common entry points: function objects; unusual sizes: very deep expressions


def _placed_sources(limit_per_skeleton=None):
    """(label, tname, source text) of every skeleton x node type x position whose text is legal Python."""
    out = []
    for sk, src in SKELETONS.items():
        fn = ast.parse(src).body[0]
        k = 0
        for tname in unsupported_types():
            node = minimal_instance(tname)
            for path, idx, depth in positions(fn):
                t2 = insert_at(ast.parse(src).body, path, idx, node)
                try:
                    text = ast.unparse(ast.fix_missing_locations(ast.Module(body=t2, type_ignores=[])))
                    compile(text, "<c11>", "exec")
                except Exception:
                    continue
                k += 1
                if limit_per_skeleton and k % limit_per_skeleton:
                    continue
                out.append((f"{sk}:{tname}:{'.'.join(map(str, path))}[{idx}]", tname, text, depth))
    return out


def _callables(col, stride):
    """the same placements handed over as FUNCTION OBJECTS (defined in a real module file, as inspect.getsource needs)."""
    import importlib.util
    import os

    from vpbt.core import VERIF

    items = _placed_sources()[::stride]
    work = VERIF / ".work"
    work.mkdir(exist_ok=True)
    path = work / f"c11_callables_{os.getpid()}.py"
    chunks = []
    for k, (label, tname, text, depth) in enumerate(items):
        chunks.append(text.replace("def f(", f"def f_{k}(", 1))
    extra = "async def co_fn(a, b):\n    x = a\n    return x\n\n\nclass Kls:\n    def meth(self, a):\n        if a:\n            return 1\n        return 2\n\n\nlam = lambda a: a\n"
    path.write_text("\n\n".join(chunks) + "\n\n" + extra)
    try:
        spec_ = importlib.util.spec_from_file_location(f"c11_callables_{os.getpid()}", path)
        mod = importlib.util.module_from_spec(spec_)
        spec_.loader.exec_module(mod)
        for k, (label, tname, text, depth) in enumerate(items):
            fn = getattr(mod, f"f_{k}")
            try:
                AST2SCFG(fn)
                res = ("accepted (a graph was built)", "accepted")
            except NotImplementedError:
                res = None
            except Exception as e:
                res = (f"raised {type(e).__name__} ({e}) instead of NotImplementedError", f"{type(e).__name__}@{lib_frame(e)}")
            if res:
                col.fail(f"C11:{tname}:callable:{res[1]}", f"{tname} in a function OBJECT ({label}): {res[0]}", dict(callable=label, src=text, node=tname), len(text))
            col.case(("callable", label), len(text), depth >= 1, sample=dict(entry="function object", placement=label), classes=[tname, "entry:callable"])
        for label, obj in (("coroutine_function", mod.co_fn), ("class_object", mod.Kls), ("lambda", mod.lam), ("builtin", len)):
            try:
                g = AST2SCFG(obj)
                built = True
            except BaseException as e:
                built = False
                if isinstance(e, (KeyboardInterrupt, SystemExit)):
                    raise
            if built:
                col.fail(f"C11:nonfunction:{label}", f"non-function input {label} (an object, not source text) was accepted: {len(g.graph)} blocks", dict(nonfunction_object=label), 1)
            col.case(("nonfunction-object", label), 1, True, sample=dict(nonfunction=label, form="object"), classes=["nonfunction", "entry:callable"])
    finally:
        try:
            path.unlink()
        except OSError:
            pass


DEEP = 1500


def _deep(col):
    """the unsupported statement carries an expression nested deeper than the interpreter's recursion limit:
    refusal must not depend on walking into it."""
    chain = " + ".join(["zz"] * DEEP)
    stmts = {
        "Assert": f"assert {chain}",
        "Raise": f"raise ValueError({chain})",
        "AnnAssign": f"zz: int = {chain}",
        "Delete": f"del zz[{chain}]",
        "With": f"with zz({chain}):\n    pass",
        "Try": f"try:\n    zz = {chain}\nexcept Exception:\n    pass",
        "Match": f"match {chain}:\n    case 1:\n        pass",
        "FunctionDef": f"def g():\n    return {chain}",
        "ClassDef": f"class K:\n    zz = {chain}",
    }
    for tname, stext in stmts.items():
        for sk in ("top", "loopbody"):
            lines = SKELETONS[sk].splitlines()
            # first statement of the function body / of the loop body
            at = 1 if sk == "top" else 3
            ind = lines[at][: len(lines[at]) - len(lines[at].lstrip())]
            text = "\n".join(lines[:at] + [ind + l for l in stext.splitlines()] + lines[at:]) + "\n"
            for form in ("source", "nodes"):
                try:
                    arg = text if form == "source" else ast.parse(text).body
                except RecursionError:
                    col.count("deep_unparsable")
                    continue
                import sys

                old = sys.getrecursionlimit()
                sys.setrecursionlimit(1000)  # the interpreter's default (the harness itself runs with a larger one)
                try:
                    AST2SCFG(arg)
                    res = ("accepted (a graph was built)", "accepted")
                except NotImplementedError:
                    res = None
                except Exception as e:
                    res = (f"raised {type(e).__name__} instead of NotImplementedError", f"{type(e).__name__}@{lib_frame(e)}")
                finally:
                    sys.setrecursionlimit(old)
                if res:
                    col.fail(f"C11:{tname}:deep:{res[1]}", f"{tname} with a {DEEP}-term expression at {sk} ({form}): {res[0]}", dict(deep=tname, skeleton=sk, form=form), 10)
                col.case(("deep", tname, sk, form), DEEP, sk != "top", sample=dict(node=tname, skeleton=sk, form=form, expression_terms=DEEP), classes=[tname, "deep_expression"])


def run(spec):
    col = Collector()
    types = unsupported_types()
    if spec[0] == "callable":
        _callables(col, spec[1])
        _deep(col)
        return col.result()
    if spec[0] == "skeleton":
        _nonfunction(col)
        for sk, src in SKELETONS.items():
            fn = ast.parse(src).body[0]
            for tname in types:
                node = minimal_instance(tname)
                for path, idx, depth in positions(fn):
                    _try(col, "skeleton:" + sk, src, tname, node, path, idx, depth)
    else:
        _, seed, shard, examples, per = spec

        @hseed(h64(("c11", seed, shard)))
        @settings(max_examples=examples, database=None, deadline=None, phases=[Phase.generate], suppress_health_check=list(HealthCheck))
        @given(src=gp.programs(max_depth=4), data=st.data())
        def t(src, data):
            fn = ast.parse(src).body[0]
            pos = positions(fn)
            for _ in range(per):
                tname = data.draw(st.sampled_from(types))
                path, idx, depth = data.draw(st.sampled_from(pos))
                _try(col, "generated", src, tname, minimal_instance(tname), path, idx, depth)

        t()
    return col.result()


def plan(tier, seed):
    if tier == "quick":
        return [("skeleton",), ("callable", 7)] + [("gen", seed, s, 60, 4) for s in range(14)]
    return [("skeleton",), ("callable", 1)] + [("gen", seed, s, 1500, 6) for s in range(30)]


def replay(inp):
    col = Collector()
    if "callable" in inp or "nonfunction_object" in inp:
        _callables(col, 1)
        key = inp.get("callable") or inp.get("nonfunction_object")
        return [(s, f["msg"]) for s, f in col.failures.items() if key in f["msg"] or s.endswith(":" + key)]
    if "deep" in inp:
        _deep(col)
        return [(s, f["msg"]) for s, f in col.failures.items() if f":{inp['deep']}:" in s]
    if "nonfunction" in inp:
        _nonfunction(col)
        return [(s, f["msg"]) for s, f in col.failures.items() if s.endswith(":" + inp["nonfunction"])]
    _try(col, "replay", inp["src"], inp["node"], minimal_instance(inp["node"]), inp["path"], inp["idx"], 1)
    return [(s, f["msg"]) for s, f in col.failures.items()]
