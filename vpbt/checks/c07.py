"""C07 - Python source round trip is observationally equivalent or refused."""

from __future__ import annotations

from hypothesis import HealthCheck, Phase, given, seed as hseed, settings, strategies as st

from vpbt import ast_checks as A, gen_programs as gp, pyexec as X
from vpbt.core import Collector, h64, load_findings
from vpbt.shrink_src import shrink_source

PID = "C07"
RULE = (
    "Cases: functions 'def f(a, b)' drawn by the Hypothesis grammar strategy gen_programs.programs (assign, aug-assign, expression statements, "
    "return, pass, if/elif/else, while/else, for/else, break, continue, nesting <= 3; expressions with and/or chains, comparisons incl. chained and "
    "'is None', arithmetic, unary, calls, attribute, subscript, conditional expressions, constants as tests). Each program goes source -> AST2SCFG -> "
    "restructure -> SCFG2AST -> unparse -> compile and both functions run under a recording environment for 2 argument tuples x all decision tapes "
    "explored path-exhaustively as a tree (extend a tape only when a run exhausted it) up to the tier's depth. Allowed: explicit NotImplementedError "
    "(refusal) or equal observations (outcome kind, repr of value / exception type, full external-call trace). Main shards exclude by construction "
    "the constructs of recorded findings (known_findings.txt); one probe shard group per recorded finding enables exactly that construct and accepts "
    "only that finding's signature. Non-trivial = accepted program with >= 1 loop and >= 1 branch and at least one completed path. Distinct = hash of the source."
)
ASSUME = [
    "arguments come from a finite pool; path exhaustiveness holds for tape-driven decisions up to the depth bound; programs that hit the call/line budget are inconclusive (counted, never a violation)",
    "a mismatch in a probe shard whose program carries the probed construct is attributed to that recorded finding",
]


def recorded_features():
    """features switched off in the main search: those of recorded findings
    (sig 'C07:mismatch:<feature>')."""
    out = []
    for f in load_findings(PID):
        parts = f.sig.split(":")
        if len(parts) == 3 and parts[1] == "mismatch" and parts[2] in gp.DEFAULT_FEATURES:
            out.append(parts[2])
    return sorted(set(out))


def check_program(src, arg_idx, depth, max_runs, recorded):
    """-> (status, sig, msg, stats)"""
    feats = gp.features(src)
    try:
        new_src, scfg, fdef = A.roundtrip(src)
    except A.Refused as r:
        return "refused", None, str(r), {}
    except A.Internal as e:
        return "fail", f"C07:internal:{e.sig}", str(e), {}
    try:
        compile(new_src, "<regenerated>", "exec")
    except SyntaxError as e:
        return "fail", "C07:syntax", f"regenerated source does not compile: {e}", {}
    args = [A.ARG_POOL[i % len(A.ARG_POOL)] for i in arg_idx]
    stats, mm = A.compare_behaviour(X.factory_from_source(src, "f"), X.factory_from_source(new_src, "transformed_f"), args, depth, max_runs)
    if mm:
        tags = sorted(feats & set(recorded))
        sig = "C07:mismatch:" + ("+".join(tags) if tags else "plain")
        if A.pruned_local_symptom(src, new_src, mm):
            sig = "C07:mismatch:pruned_local"
        return "fail", sig, f"behaviour differs: {mm}", stats
    if stats["complete"] == 0:
        return "inconclusive", None, "", stats
    return "ok", None, "", stats


def run(spec):
    _, seed, shard, examples, depth, max_runs, feats_off, probe = spec
    col = Collector()
    recorded = recorded_features()
    feats = {k: False for k in feats_off}
    if probe:
        feats[probe] = True

    @hseed(h64(("c07", seed, shard, probe)))
    @settings(max_examples=examples, database=None, deadline=None, phases=[Phase.generate], suppress_health_check=list(HealthCheck))
    @given(src=gp.programs(feats), arg_idx=st.lists(st.integers(0, 5), min_size=2, max_size=2, unique=True))
    def t(src, arg_idx):
        status, sig, msg, stats = check_program(src, arg_idx, depth, max_runs, recorded)
        f = gp.features(src)
        col.count("status_" + status)
        for k in ("runs", "complete", "inconclusive"):
            col.count("tape_" + k, stats.get(k, 0))
        if status == "fail":
            col.fail(sig, msg, dict(src=src, arg_idx=list(arg_idx), depth=depth, max_runs=max_runs), len(src))
        nt = status == "ok" and "loop" in f and "if" in f
        classes = sorted(t_ for t_ in f if not t_.startswith("depth")) + [status] + (["probe:" + probe] if probe else ["main"])
        col.case(src, len(src), nt, sample=dict(src=src, status=status), classes=classes)

    t()
    return col.result()


def plan(tier, seed):
    off = recorded_features()
    specs = []
    if tier == "quick":
        specs += [("p", seed, s, 120, 8, 40, off, None) for s in range(16)]
        for f in off:
            specs += [("p", seed, 100 + s, 40, 6, 24, off, f) for s in range(2)]
    else:
        specs += [("p", seed, s, 1300, 12, 160, off, None) for s in range(32)]
        for f in off:
            specs += [("p", seed, 100 + s, 400, 8, 48, off, f) for s in range(4)]
    return specs


def replay(inp):
    status, sig, msg, _ = check_program(inp["src"], inp.get("arg_idx", [0, 1]), inp.get("depth", 8), inp.get("max_runs", 40), recorded_features())
    return [(sig, msg)] if status == "fail" else []


def shrink(fail):
    inp = fail["replay"]
    sig = fail["sig"]

    def still(src):
        r = replay(dict(inp, src=src))
        return any(s == sig for s, _ in r)

    small = shrink_source(inp["src"], still)
    if len(small) < len(inp["src"]):
        r = [m for s, m in replay(dict(inp, src=small)) if s == sig]
        if r:
            fail = dict(fail, replay=dict(inp, src=small), msg=r[0], size=len(small))
    return fail
