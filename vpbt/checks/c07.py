"""C07 - Python source round trip is observationally equivalent or refused."""

from __future__ import annotations

import ast

from vpbt import ast_checks as A, gen_programs as gp, pyexec as X
from vpbt import prog_check as P

PID = "C07"
RULE = (
    "Cases: functions 'def f(a, b)' drawn by the Hypothesis grammar strategy gen_programs.programs (assign, aug-assign, expression statements, "
    "return, pass, if/elif/else, while/else, for/else, break, continue, nesting <= 3; expressions with and/or chains, comparisons incl. chained and "
    "'is None', arithmetic, unary, calls, attribute, subscript, conditional expressions, constants as tests). Each program goes source -> AST2SCFG -> "
    "restructure -> SCFG2AST -> unparse -> compile and both functions run under a recording environment for 2 argument tuples x all decision tapes "
    "explored path-exhaustively as a tree (extend a tape only when a run exhausted it) up to the tier's depth. Allowed: explicit NotImplementedError "
    "(refusal) or equal observations (outcome kind, repr of value / exception type, full external-call trace). Main shards exclude by construction "
    "the constructs of recorded findings (known_findings.txt); one probe shard group per recorded finding enables exactly that construct and accepts "
    "only that finding's signature. Corpus leg: standard-library functions whose source lies in the supported statement subset go through the same pipeline and must be refused explicitly or yield source that compiles. Non-trivial = accepted program with >= 1 loop and >= 1 branch and at least one completed path. Distinct = hash of the source."
)
ASSUME = [
    "arguments come from a finite pool; path exhaustiveness holds for tape-driven decisions up to the depth bound; programs that hit the call/line budget are inconclusive (counted, never a violation)",
    "a mismatch in a probe shard whose program carries the probed construct is attributed to that recorded finding",
]


def check_program(src, arg_idx, depth, max_runs, recorded):
    """-> (status, sig, msg, stats)"""
    feats = gp.features(src)
    try:
        new_src, scfg, fdef = A.roundtrip(src)
    except A.Refused as r:
        return "refused", None, str(r), {}
    except A.Internal as e:
        return "fail", f"C07:internal:{e.sig}", str(e), {}
    try:
        compile(new_src, "<regenerated>", "exec")
    except SyntaxError as e:
        return "fail", "C07:syntax", f"regenerated source does not compile: {e}", {}
    args = [A.ARG_POOL[i % len(A.ARG_POOL)] for i in arg_idx]
    stats, mm = A.compare_behaviour(X.factory_from_source(src, "f"), X.factory_from_source(new_src, ast.parse(new_src).body[0].name), args, depth, max_runs)
    if mm:
        sig = P.mismatch_sig(PID, feats, recorded)
        if A.pruned_local_symptom(src, new_src, mm):
            sig = "C07:mismatch:pruned_local"
        return "fail", sig, f"behaviour differs: {mm}", stats
    if stats["complete"] == 0:
        return "inconclusive", None, "", stats
    return "ok", None, "", stats


def _nontrivial(status, feats, stats):
    return status == "ok" and "loop" in feats and "if" in feats


_run, _plan, _replay, _shrink = P.make(PID, check_program, _nontrivial)
PROG_BUILD = _run.build

SUPPORTED_STMTS = (ast.FunctionDef, ast.Assign, ast.AugAssign, ast.Expr, ast.Return, ast.Pass, ast.Break, ast.Continue, ast.If, ast.While, ast.For)


def in_supported_subset(src):
    try:
        tree = ast.parse(src)
    except SyntaxError:
        return False
    if len(tree.body) != 1 or not isinstance(tree.body[0], ast.FunctionDef):
        return False
    fn = tree.body[0]
    if fn.decorator_list:
        return False
    for n in ast.walk(fn):
        if isinstance(n, ast.stmt) and (not isinstance(n, SUPPORTED_STMTS) or (isinstance(n, ast.FunctionDef) and n is not fn)):
            return False
        if isinstance(n, (ast.Yield, ast.YieldFrom, ast.Await)):
            return False
    return True


def check_corpus_function(label, src):
    """real functions in the supported subset: the pipeline must refuse
    explicitly or produce source that compiles (behaviour cannot be compared
    without an environment)."""
    try:
        new_src, scfg, fdef = A.roundtrip(src)
    except A.Refused:
        return "refused", None, ""
    except A.Internal as e:
        return "fail", f"C07:corpus:internal:{e.sig}", f"{label}: {e}"
    try:
        compile(new_src, "<regenerated>", "exec")
    except SyntaxError as e:
        return "fail", "C07:corpus:syntax", f"{label}: regenerated source does not compile: {e}"
    return "ok", None, ""


def run(spec):
    if spec[0] != "corpus":
        return _run(spec)
    from vpbt import bytecode_model as bm
    from vpbt.core import Collector

    _, shard, nshards, limit = spec
    col = Collector()
    n = 0
    for label, src in bm.corpus_function_sources(shard, nshards):
        if n >= limit:
            break
        if not in_supported_subset(src):
            col.count("corpus_outside_subset")
            continue
        n += 1
        status, sig, msg = check_corpus_function(label, src)
        col.count("corpus_" + status)
        if status == "fail":
            col.fail(sig, msg, dict(corpus_function=label, src=src), len(src))
        f = gp.features(src)
        col.case(("corpus", label), len(src), status == "ok" and "loop" in f and "if" in f, sample=dict(corpus_function=label, status=status), classes=["corpus", "corpus_" + status])
    return col.result()


def plan(tier, seed):
    specs = _plan(tier, seed, fuzz_mod=__name__)
    if tier == "quick":
        specs += [("corpus", s, 16, 40) for s in range(16)]
    else:
        specs += [("corpus", s, 16, 10**9) for s in range(16)]
    return specs


def replay(inp):
    if "corpus_function" in inp:
        status, sig, msg = check_corpus_function(inp["corpus_function"], inp["src"])
        return [(sig, msg)] if status == "fail" else []
    return _replay(inp)


def shrink(fail):
    if "corpus_function" in fail["replay"]:
        return fail
    return _shrink(fail)
