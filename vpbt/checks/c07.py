"""C07 - Python source round trip is observationally equivalent or refused."""

from __future__ import annotations

from vpbt import ast_checks as A, gen_programs as gp, pyexec as X
from vpbt import prog_check as P

PID = "C07"
RULE = (
    "Cases: functions 'def f(a, b)' drawn by the Hypothesis grammar strategy gen_programs.programs (assign, aug-assign, expression statements, "
    "return, pass, if/elif/else, while/else, for/else, break, continue, nesting <= 3; expressions with and/or chains, comparisons incl. chained and "
    "'is None', arithmetic, unary, calls, attribute, subscript, conditional expressions, constants as tests). Each program goes source -> AST2SCFG -> "
    "restructure -> SCFG2AST -> unparse -> compile and both functions run under a recording environment for 2 argument tuples x all decision tapes "
    "explored path-exhaustively as a tree (extend a tape only when a run exhausted it) up to the tier's depth. Allowed: explicit NotImplementedError "
    "(refusal) or equal observations (outcome kind, repr of value / exception type, full external-call trace). Main shards exclude by construction "
    "the constructs of recorded findings (known_findings.txt); one probe shard group per recorded finding enables exactly that construct and accepts "
    "only that finding's signature. Non-trivial = accepted program with >= 1 loop and >= 1 branch and at least one completed path. Distinct = hash of the source."
)
ASSUME = [
    "arguments come from a finite pool; path exhaustiveness holds for tape-driven decisions up to the depth bound; programs that hit the call/line budget are inconclusive (counted, never a violation)",
    "a mismatch in a probe shard whose program carries the probed construct is attributed to that recorded finding",
]


def check_program(src, arg_idx, depth, max_runs, recorded):
    """-> (status, sig, msg, stats)"""
    feats = gp.features(src)
    try:
        new_src, scfg, fdef = A.roundtrip(src)
    except A.Refused as r:
        return "refused", None, str(r), {}
    except A.Internal as e:
        return "fail", f"C07:internal:{e.sig}", str(e), {}
    try:
        compile(new_src, "<regenerated>", "exec")
    except SyntaxError as e:
        return "fail", "C07:syntax", f"regenerated source does not compile: {e}", {}
    args = [A.ARG_POOL[i % len(A.ARG_POOL)] for i in arg_idx]
    stats, mm = A.compare_behaviour(X.factory_from_source(src, "f"), X.factory_from_source(new_src, "transformed_f"), args, depth, max_runs)
    if mm:
        sig = P.mismatch_sig(PID, feats, recorded)
        if A.pruned_local_symptom(src, new_src, mm):
            sig = "C07:mismatch:pruned_local"
        return "fail", sig, f"behaviour differs: {mm}", stats
    if stats["complete"] == 0:
        return "inconclusive", None, "", stats
    return "ok", None, "", stats


def _nontrivial(status, feats, stats):
    return status == "ok" and "loop" in feats and "if" in feats


run, plan, replay, shrink = P.make(PID, check_program, _nontrivial)
