"""C07 - Python source round trip is observationally equivalent or refused."""

from __future__ import annotations

import ast

from vpbt import ast_checks as A, gen_programs as gp, pyexec as X
from vpbt import prog_check as P
from vpbt.core import lib_frame

PID = "C07"
RULE = (
    "Cases: functions 'def f(a, b)' drawn by the Hypothesis grammar strategy gen_programs.programs (assign, aug-assign, expression statements, "
    "return, pass, if/elif/else, while/else, for/else, break, continue, nesting <= 3; expressions with and/or chains, comparisons incl. chained and "
    "'is None', arithmetic, unary, calls, attribute, subscript, conditional expressions, constants as tests). Each program goes source -> AST2SCFG -> "
    "restructure -> SCFG2AST -> unparse -> compile and both functions run under a recording environment for 2 argument tuples x all decision tapes "
    "explored path-exhaustively as a tree (extend a tape only when a run exhausted it) up to the tier's depth. Allowed: explicit NotImplementedError "
    "(refusal) or equal observations (outcome kind, repr of value / exception type, full external-call trace). Main shards exclude by construction "
    "the constructs of recorded findings (known_findings.txt); one probe shard group per recorded finding enables exactly that construct and accepts "
    "only that finding's signature. Corpus leg: standard-library functions whose source lies in the supported statement subset go through the same pipeline and must be refused explicitly or yield source that compiles. Further legs: the same grammar driven coverage-guided by libFuzzer (atheris) through Hypothesis' fuzz_one_input; fixed template families (loops with 3-13 exits, 3-13-arm elif chains, 3-13-operand and/or chains, 3-7-deep while nests, while-True idioms) and a slice (quick) / all (thorough) of an exhaustive family of 3768 loops whose body is an if/elif/else chain over every combination of pass / continue / break / return / statement arms with every kind of tail. Sequence leg: drawn sequences of 2-4 functions go through ONE SCFG2ASTTransformer object, each generated twice from its graph, and must compile and behave like their originals (or be refused). Non-trivial = accepted program with >= 1 loop and >= 1 branch and at least one completed path. Distinct = hash of the source."
)
ASSUME = [
    "arguments come from a finite pool; path exhaustiveness holds for tape-driven decisions up to the depth bound; programs that hit the call/line budget are inconclusive (counted, never a violation)",
    "a mismatch in a probe shard whose program carries the probed construct is attributed to that recorded finding",
]


def check_program(src, arg_idx, depth, max_runs, recorded):
    """-> (status, sig, msg, stats)"""
    feats = gp.features(src)
    try:
        new_src, scfg, fdef = A.roundtrip(src)
    except A.Refused as r:
        return "refused", None, str(r), {}
    except A.Internal as e:
        return "fail", f"C07:internal:{e.sig}", str(e), {}
    try:
        compile(new_src, "<regenerated>", "exec")
    except SyntaxError as e:
        return "fail", "C07:syntax", f"regenerated source does not compile: {e}", {}
    args = [A.ARG_POOL[i % len(A.ARG_POOL)] for i in arg_idx]
    stats, mm = A.compare_behaviour(X.factory_from_source(src, "f"), X.factory_from_source(new_src, ast.parse(new_src).body[0].name), args, depth, max_runs)
    if mm:
        sig = P.mismatch_sig(PID, feats, recorded)
        if A.pruned_local_symptom(src, new_src, mm):
            sig = "C07:mismatch:pruned_local"
        return "fail", sig, f"behaviour differs: {mm}", stats
    if stats["complete"] == 0:
        return "inconclusive", None, "", stats
    return "ok", None, "", stats


def _nontrivial(status, feats, stats):
    return status == "ok" and "loop" in feats and "if" in feats


_run, _plan, _replay, _shrink = P.make(PID, check_program, _nontrivial)
PROG_BUILD = _run.build

SUPPORTED_STMTS = (ast.FunctionDef, ast.Assign, ast.AugAssign, ast.Expr, ast.Return, ast.Pass, ast.Break, ast.Continue, ast.If, ast.While, ast.For)


def in_supported_subset(src):
    try:
        tree = ast.parse(src)
    except SyntaxError:
        return False
    if len(tree.body) != 1 or not isinstance(tree.body[0], ast.FunctionDef):
        return False
    fn = tree.body[0]
    if fn.decorator_list:
        return False
    for n in ast.walk(fn):
        if isinstance(n, ast.stmt) and (not isinstance(n, SUPPORTED_STMTS) or (isinstance(n, ast.FunctionDef) and n is not fn)):
            return False
        if isinstance(n, (ast.Yield, ast.YieldFrom, ast.Await)):
            return False
    return True


def check_corpus_function(label, src):
    """real functions in the supported subset: the pipeline must refuse
    explicitly or produce source that compiles (behaviour cannot be compared
    without an environment)."""
    try:
        new_src, scfg, fdef = A.roundtrip(src)
    except A.Refused:
        return "refused", None, ""
    except A.Internal as e:
        return "fail", f"C07:corpus:internal:{e.sig}", f"{label}: {e}"
    try:
        compile(new_src, "<regenerated>", "exec")
    except SyntaxError as e:
        return "fail", "C07:corpus:syntax", f"{label}: regenerated source does not compile: {e}"
    return "ok", None, ""


# --------------------------------------------------------------------------
# one regenerating transformer object for a sequence of functions (state carried between calls)


def check_sequence(srcs, depth=6, max_runs=24):
    """Every function of the sequence goes source -> graph -> restructure -> Python through ONE SCFG2ASTTransformer
    object, twice from the same graph; each regenerated function must compile and behave like its original, or the
    call must refuse explicitly - whatever the object did before (including refused calls).  -> (status, sig, msg, n)"""
    from numba_scfg.core.datastructures.ast_transforms import AST2SCFG, SCFG2ASTTransformer

    from vpbt.core import library_raised

    shared = SCFG2ASTTransformer()
    done = 0
    for i, src in enumerate(srcs):
        try:
            scfg = AST2SCFG(src)
            scfg.restructure()
        except Exception as e:
            if not library_raised(e):
                raise
            continue  # judged by the main leg
        for attempt in ("first", "second"):
            try:
                new_src = ast.unparse(ast.fix_missing_locations(shared.transform(original=ast.parse(src).body[0], scfg=scfg)))
            except NotImplementedError:
                break  # explicit refusal is allowed; the object stays in use
            except Exception as e:
                if not library_raised(e):
                    raise
                return "fail", f"C07:seq:internal:{type(e).__name__}@{lib_frame(e)}", f"function #{i} ({attempt} generation) on a transformer object that already handled {done} function(s): {type(e).__name__}: {e}", done
            try:
                compile(new_src, "<regenerated>", "exec")
            except SyntaxError as e:
                return "fail", "C07:seq:syntax", f"function #{i} ({attempt} generation from the same graph) on a reused transformer object: regenerated source does not compile: {e}", done
            stats, mm = A.compare_behaviour(X.factory_from_source(src, "f"), X.factory_from_source(new_src, ast.parse(new_src).body[0].name), [A.ARG_POOL[i % len(A.ARG_POOL)]], depth, max_runs)
            if mm:
                if A.pruned_local_symptom(src, new_src, mm):
                    return "fail", "C07:mismatch:pruned_local", f"behaviour differs: {mm}", done  # the recorded finding KF-dead-store-scope
                return "fail", "C07:seq:mismatch", f"function #{i} ({attempt} generation) regenerated by a transformer object that already handled {done} function(s) behaves differently: {mm}", done
        done += 1
    return "ok", None, "", done


def _run_seq(spec):
    from hypothesis import HealthCheck, Phase, given, seed as hseed, settings, strategies as st

    from vpbt.core import Collector, h64

    _, seed, shard, examples = spec
    col = Collector()
    off = {k: False for k in P.recorded_features(PID)}

    @hseed(h64(("c07seq", seed, shard)))
    @settings(max_examples=examples, database=None, deadline=None, phases=[Phase.generate], suppress_health_check=list(HealthCheck))
    @given(srcs=st.lists(gp.programs(off, max_depth=3), min_size=2, max_size=4))
    def t(srcs):
        status, sig, msg, n = check_sequence(srcs)
        col.count("sequence_" + status)
        col.count("sequence_functions", n)
        if status == "fail":
            col.fail(sig, msg, dict(sequence=list(srcs)), sum(len(x) for x in srcs))
        col.case(("seq", tuple(srcs)), sum(len(x) for x in srcs), n >= 2, sample=dict(sequence=list(srcs), status=status), classes=["sequence"])

    t()
    return col.result()


def run(spec):
    if spec[0] == "seq":
        return _run_seq(spec)
    if spec[0] != "corpus":
        return _run(spec)
    from vpbt import bytecode_model as bm
    from vpbt.core import Collector

    _, shard, nshards, limit = spec
    col = Collector()
    n = 0
    for label, src in bm.corpus_function_sources(shard, nshards):
        if n >= limit:
            break
        if not in_supported_subset(src):
            col.count("corpus_outside_subset")
            continue
        n += 1
        status, sig, msg = check_corpus_function(label, src)
        col.count("corpus_" + status)
        if status == "fail":
            col.fail(sig, msg, dict(corpus_function=label, src=src), len(src))
        f = gp.features(src)
        col.case(("corpus", label), len(src), status == "ok" and "loop" in f and "if" in f, sample=dict(corpus_function=label, status=status), classes=["corpus", "corpus_" + status])
    return col.result()


def plan(tier, seed):
    specs = _plan(tier, seed, fuzz_mod=__name__)
    if tier == "quick":
        specs += [("corpus", s, 16, 40) for s in range(16)]
        specs += [("seq", seed, s, 25) for s in range(8)]
    else:
        specs += [("corpus", s, 16, 10**9) for s in range(16)]
        specs += [("seq", seed, s, 400) for s in range(16)]
    return specs


def replay(inp):
    if "sequence" in inp:
        status, sig, msg, _ = check_sequence(inp["sequence"])
        return [(sig, msg)] if status == "fail" else []
    if "corpus_function" in inp:
        status, sig, msg = check_corpus_function(inp["corpus_function"], inp["src"])
        return [(sig, msg)] if status == "fail" else []
    return _replay(inp)


def shrink(fail):
    if "sequence" in fail["replay"]:
        seq = list(fail["replay"]["sequence"])
        changed = True
        while changed and len(seq) > 1:
            changed = False
            for i in range(len(seq)):
                cand = seq[:i] + seq[i + 1 :]
                if cand and check_sequence(cand)[1] == fail["sig"]:
                    seq, changed = cand, True
                    break
        return dict(fail, replay=dict(sequence=seq))
    if "corpus_function" in fail["replay"]:
        return fail
    return _shrink(fail)
