"""C09 - the graph built from bytecode is exactly the bytecode's control flow."""

from __future__ import annotations

import json
import os
import shutil
import subprocess
import sys
import types
from pathlib import Path

from hypothesis import HealthCheck, Phase, given, seed as hseed, settings, strategies as st

from vpbt import bytecode_model as bm, c09_oracle as O, gen_programs as gp, pyexec as X
from vpbt.core import REPO, VERIF, Collector, h64, library_raised

PID = "C09"
RULE = (
    "Cases: (corpus) every function and nested code object of a fixed list of ~120 standard-library modules that has no exception table, raise or "
    "suspension point; (generated) functions drawn by gen_programs.programs plus bytecode-specific templates (is None / is not None tests, constant and "
    "implicit returns, conditional expressions, chained comparisons, and/or in value position, nested loops with break/continue/else, match statements, "
    "bodies long enough to need EXTENDED_ARG jumps), compiled by the interpreter under test; both under CPython 3.12 in-process and under CPython 3.11 in a "
    "child interpreter when one is present. Oracle: validity predicate from dis/opcode metadata (tiling, every instruction in exactly one block, entry only "
    "at the first and exit only after the last instruction, ordered successors = fall-through then jump target, none after a return, from_bytecode does not "
    "raise). Dynamic leg: generated functions run under opcode tracing with decision tapes; every observed instruction-to-instruction transition must be "
    "sequential inside a block or an edge of the library's graph (validates the oracle's own no-fall-through table against the interpreter). "
    "Further clauses and legs: the instructions enumerated through the blocks' own get_instructions() are exactly the interpreter's, each once; a second build (ByteFlow.from_bytecode again, also after the first result was restructured in place; FlowInfo.build_basicblocks twice) gives the same fresh graph; functions that were executed before (specialised in place), with and without debug logging; functions with a jump over >= 65536 code units; starred for-targets. Non-trivial = the function has >= 1 conditional jump. Distinct = hash of (interpreter, function label / source)."
)
ASSUME = [
    "dis.get_instructions / opcode.hasjrel|hasjabs of the running interpreter are the ground truth for jump instructions and targets",
    "the ten-name table of instructions that never fall through is written from the CPython documentation and validated by the tracing leg",
    "interpreters: 3.12 (always), 3.11 (child process, when present); 3.13 is not claimed by the library's opcode tables and is not run",
]

PY311_CANDIDATES = ["/root/.pyenv/versions/3.11.7/bin/python3.11", "/opt/veriftools/pyvenv/bin/python"]

TEMPLATES = [
    "def f(a, b):\n    if a is None:\n        return 1\n    if b is not None:\n        return b\n    return None\n",
    "def f(a, b):\n    x = 1 if a else 2\n    y = a < b < 3\n    z = a and b or 3\n    return\n",
    "def f(a, b):\n    for i in a:\n        for j in b:\n            if i is None:\n                continue\n            if j:\n                break\n        else:\n            b = 0\n    else:\n        return 7\n",
    "def f(a, b):\n    while True:\n        a -= 1\n        if a is not None and a < 0:\n            return 'done'\n",
    "def f(a, b):\n    match a:\n        case 1:\n            return 'one'\n        case [x, y]:\n            return x\n        case {'k': v} if v:\n            return v\n        case _:\n            pass\n    return b\n",
    "def f(a, b):\n    while a:\n        a -= 1\n    else:\n        b = 1\n    return (lambda q: q if q else None)(b)\n",
    "def f(a, b):\n    if (n := a) is None or not b:\n        return 0\n    return n\n",
    "def f(a, b):\n    return [x for x in a if x is not None]\n",
    "def f(a, b):\n    pass\n",
    "def f(a, b):\n    for *head, last in a:\n        if last:\n            b += 1\n    return b\n",
    "def f(a, b):\n    for first, *rest in a:\n        if first is None:\n            continue\n        b = rest\n    else:\n        return None\n    return b\n",
    "def f(a, b):\n    for (p, q), *mid, (r, s) in a:\n        while p:\n            p -= 1\n            if q: break\n    return b\n",
    "def f(a, b):\n    x = not a\n    while x is None:\n        if b: continue\n        x = b\n    return x if x is not None else 3\n",
]


# executed before they are analysed (the specialising interpreter rewrites warm code in place: FOR_ITER_RANGE,
# FOR_ITER_LIST, COMPARE_OP_INT ...); (source, argument tuples)
WARM = [
    ("def f(a, b):\n    s = 0\n    for i in range(a):\n        if i % 2:\n            s += i\n        else:\n            s -= 1\n    return s\n", [(40, 0)]),
    ("def f(a, b):\n    s = 0\n    for x in b:\n        if x is None:\n            continue\n        s += x\n    else:\n        s += 1\n    return s\n", [(0, [1, 2, 3] * 9), (0, (1, 2, 3) * 9)]),
    ("def f(a, b):\n    n = 0\n    while a > 0:\n        a -= 1\n        for j in range(3):\n            if j == b:\n                break\n            n += j\n        else:\n            n += 10\n    return n\n", [(30, 1), (30, 7)]),
    ("def f(a, b):\n    out = []\n    for k, v in enumerate(b):\n        if v and k < a:\n            out.append(v)\n        elif not v:\n            continue\n    return out\n", [(5, [1, 0, 2] * 12)]),
    ("def f(a, b):\n    t = 0\n    for c in 'abcabc' * a:\n        t += 1 if c == 'a' else 2\n    return t if t is not None else b\n", [(8, 0)]),
]


def _warm(col, ver, src, argtuples):
    """C09 under process state: the function has been executed (warm, specialised code) and debug logging is on."""
    from vpbt.core import debug_logging

    ns = {}
    exec(compile(src, "<warm>", "exec"), ns)
    fn = ns["f"]
    if not bm.eligible(fn.__code__):
        col.count("ineligible")  # e.g. an inlined comprehension brings an exception table
        return
    for args in argtuples:
        for _ in range(80):
            try:
                fn(*args)
            except Exception:
                break
    for label, ctx in (("warm", None), ("warm+debug-logging", debug_logging())):
        try:
            if ctx is None:
                O.check_code(fn.__code__)
            else:
                with ctx:
                    O.check_code(fn.__code__)
        except O.V as v:
            col.fail(f"C09:{v.clause}", f"[{ver}] {label}: {v.msg}", dict(src=src, version=ver, warm=[list(a) for a in argtuples]), len(fn.__code__.co_code))
    col.count("warm_functions")
    col.case(("warm", src), len(fn.__code__.co_code), True, sample=dict(warm=src[:300]), classes=["warm"])


def long_body(kind, n):
    body = "\n".join(["        x = x + b"] * n)
    if kind == "if":
        return f"def f(a, b):\n    x = 0\n    if a:\n{body}\n    return x\n"
    if kind == "while":
        return f"def f(a, b):\n    x = 0\n    while a:\n{body}\n        a -= 1\n    return x\n"
    return f"def f(a, b):\n    x = 0\n    for i in a:\n        if i is None:\n            continue\n{body}\n    else:\n        x = 1\n    return x\n"


@st.composite
def bytecode_sources(draw):
    k = draw(st.integers(0, 9))
    if k < 6:
        return draw(gp.programs(max_depth=4))
    if k < 8:
        return draw(st.sampled_from(TEMPLATES))
    return long_body(draw(st.sampled_from(["if", "while", "for"])), draw(st.sampled_from([30, 70, 140, 300])))


def codes_of_source(src):
    ns = {}
    exec(compile(src, "<gen>", "exec"), ns)
    out = []
    bm._codes_of(ns["f"].__code__, out, set())
    return ns["f"], out


def _record(col, ver, label, code, src=None):
    if not bm.eligible(code):
        col.count("ineligible")
        return
    try:
        info = O.check_code(code)
    except O.V as v:
        col.fail(f"C09:{v.clause}", f"[{ver}] {label}: {v.msg}", dict(function=label, src=src, version=ver), len(code.co_code))
        info = dict(cond=0, ops=set())
    for op in info["ops"]:
        col.count("op_" + op)
    col.case((ver, label if src is None else src, code.co_name), len(code.co_code), info["cond"] >= 1, sample=dict(interpreter=ver, function=label, bytes=len(code.co_code)), classes=[ver, "corpus" if src is None else "generated"])


def _gen_sources(seed, shard, examples):
    out = []

    @hseed(h64(("c09gen", seed, shard)))
    @settings(max_examples=examples, database=None, deadline=None, phases=[Phase.generate], suppress_health_check=list(HealthCheck))
    @given(src=bytecode_sources())
    def t(src):
        out.append(src)

    t()
    return out


def py311():
    for p in PY311_CANDIDATES:
        if os.path.exists(p):
            try:
                v = subprocess.run([p, "-c", "import sys; print(sys.version_info[:2])"], capture_output=True, text=True, timeout=30).stdout.strip()
            except Exception:
                continue
            if v == "(3, 11)":
                return p
    return None


def deps311():
    d = VERIF / ".deps311"
    if not (d / "yaml" / "__init__.py").exists():
        import yaml  # the pure-Python package of /venv

        src = Path(yaml.__file__).parent
        d.mkdir(exist_ok=True)
        if (d / "yaml").exists():
            shutil.rmtree(d / "yaml")
        shutil.copytree(src, d / "yaml", ignore=shutil.ignore_patterns("*.so", "__pycache__"))
    return d


def run(spec):
    col = Collector()
    kind = spec[0]
    ver = "3.%d" % sys.version_info[1]
    if kind == "corpus":
        _, shard, nshards, limit = spec
        n = 0
        for label, code in bm.corpus_codes(shard, nshards):
            if n >= limit:
                break
            n += 1
            _record(col, ver, label, code)
    elif kind == "gen":
        _, seed, shard, examples = spec
        for src in _gen_sources(seed, shard, examples):
            try:
                fn, codes = codes_of_source(src)
            except SyntaxError:
                col.count("generated_not_compilable")
                continue
            for c in codes:
                _record(col, ver, f"gen:{c.co_name}", c, src)
    elif kind == "huge":
        # one jump over >= 65536 code units needs TWO EXTENDED_ARG prefixes
        for k in spec[1]:
            src = long_body(k, 33000)
            fn, codes = codes_of_source(src)
            _record(col, ver, f"huge:{k}", fn.__code__, None)
    elif kind == "warm":
        for src, argtuples in WARM:
            _warm(col, ver, src, argtuples)
        for src in TEMPLATES:
            if "match" not in src:
                _warm(col, ver, src, [([1, None, 2], [0, 1]), (3, 1), (None, None)])
    elif kind == "trace":
        _, seed, shard, examples = spec
        for src in _gen_sources(seed + 1, shard, examples):
            _trace(col, ver, src)
    elif kind == "child311":
        _, seed, shard, nshards, limit, examples = spec
        exe = py311()
        if exe is None:
            col.count("py311_absent")
            return col.result()
        d = deps311()
        env = dict(os.environ, PYTHONPATH=f"{REPO}:{VERIF}:{d}", PYTHONHASHSEED="0", PYTHONDONTWRITEBYTECODE="1")
        runs = [[exe, "-m", "vpbt.c09_oracle", str(shard), str(nshards), str(limit)]]
        work = VERIF / ".work"
        work.mkdir(exist_ok=True)
        if examples:
            f = work / f"c09_src_{seed}_{shard}_{os.getpid()}.json"
            f.write_text(json.dumps(_gen_sources(seed, 1000 + shard, examples)))
            runs.append([exe, "-m", "vpbt.c09_oracle", "0", "1", "1000000", str(f)])
        for cmd in runs:
            p = subprocess.run(cmd, capture_output=True, text=True, env=env, cwd=str(VERIF), timeout=3000)
            if p.returncode != 0:
                raise RuntimeError(f"3.11 child failed: {p.stderr[-2000:]}")
            r = json.loads(p.stdout.strip().splitlines()[-1])
            gen = len(cmd) > 6
            col.count("py311_evaluated", r["evaluated"])
            col.count("ineligible", r["ineligible"])
            for op in r["ops"]:
                col.count("op311_" + op)
            # the child reports counts; cases are accounted by label
            for k in range(r["evaluated"]):
                col.evals += 1
            for lab in r["samples"]:
                col._sample(0, dict(interpreter="3.11", function=lab))
            for k in range(r["nontrivial"]):
                col.nontrivial.add(h64(("311", gen, shard, k)))
                col.distinct.add(h64(("311", gen, shard, k)))
            col.classes["3.11"] += r["evaluated"]
            for clause, f_ in r["failures"].items():
                col.fail(f"C09:{clause}", f"[3.11] {f_['label']}: {f_['msg']} (x{f_['n']})", dict(function=f_["label"], src=f_["src"], version="3.11"), f_["size"])
    return col.result()


# --------------------------------------------------------------------------
# dynamic leg


def _trace(col, ver, src):
    """Run under opcode tracing; every observed transition must be an edge."""
    from numba_scfg.core.datastructures.byte_flow import ByteFlow

    try:
        fn, codes = codes_of_source(src)
    except SyntaxError:
        return
    code = fn.__code__
    if not bm.eligible(code):
        col.count("trace_ineligible")
        return
    try:
        bf = ByteFlow.from_bytecode(code)
    except Exception as e:
        if not library_raised(e):
            raise
        col.count("trace_from_bytecode_raised")
        return
    if any(type(b).__name__ != "PythonBytecodeBlock" for b in bf.scfg.graph.values()):
        col.count("trace_not_a_bytecode_graph")  # the static leg reports it (B-type)
        return
    blocks = sorted(bf.scfg.graph.values(), key=lambda b: b.begin)
    offs = [i.offset for i in bm.instructions(code)]
    nxt = dict(zip(offs, offs[1:]))
    byname = bf.scfg.graph

    def blk(off):
        for b in blocks:
            if b.begin <= off < b.end:
                return b
        return None

    first = {}
    for o in offs:
        b = blk(o)
        if b is not None:
            first.setdefault(b.name, o)
    # own no-fall-through table is validated too
    byoff = {i.offset: i for i in bm.instructions(code)}
    seen_tr = set()
    nev = [0]
    prev = [None]
    bad = []

    def tr(frame, ev, arg):
        if frame.f_code is not code:
            return None
        frame.f_trace_opcodes = True
        frame.f_trace_lines = False
        if ev == "opcode":
            nev[0] += 1
            if nev[0] > 60000:
                raise X.Budget()  # run-away loop without tape reads: inconclusive
            cur = frame.f_lasti
            p = prev[0]
            if p is not None and (p, cur) not in seen_tr:
                seen_tr.add((p, cur))
                ip = byoff[p]
                if ip.opname == "FOR_ITER" and ip.argval in byoff and byoff[ip.argval].opname == "END_FOR" and nxt.get(ip.argval) == cur:
                    # CPython 3.12: an exhausted FOR_ITER jumps *over* the END_FOR
                    # its metadata names as target; judge the two steps
                    # FOR_ITER -> END_FOR -> next instead
                    steps = [(p, ip.argval), (ip.argval, cur)]
                else:
                    steps = [(p, cur)]
                for p, cur in steps:
                    judge(p, cur)
            prev[0] = frame.f_lasti
        return tr

    def judge(p, cur):
        if True:
            if True:
                bp, bc = blk(p), blk(cur)
                if bp is None or bc is None:
                    bad.append(("B-dyn-cover", f"executed offset {p}->{cur} lies in no block"))
                elif bp is bc and nxt.get(p) == cur and cur != first.get(bc.name):
                    pass  # sequential inside a block
                elif cur == first.get(bc.name) and bc.name in bp._jump_targets:
                    if byoff[p].opname in bm.NOFALL and nxt.get(p) == cur and byoff[p].opcode not in bm.JUMPS:
                        bad.append(("B-dyn-oracle", f"{byoff[p].opname}@{p} fell through although the oracle's table says it never does"))
                else:
                    bad.append(("B-dyn-edge", f"interpreter went {byoff[p].opname}@{p} -> {cur} which is neither sequential inside a block nor an edge of the graph ({bp.name}{bp._jump_targets} -> {bc.name})"))
    paths = 0
    todo = [()]
    runs = 0
    while todo and runs < 24:
        tape = todo.pop()
        runs += 1
        log = []
        ns = dict(X.make_env(tape, log))
        prev[0] = None
        nev[0] = 0
        out = None
        g = types.FunctionType(code, ns, "f")
        old = sys.gettrace()
        sys.settrace(tr)
        try:
            try:
                g(1, 0)
                out = "ret"
            except X.TapeExhausted:
                out = "tape"
            except X.Budget:
                out = "budget"
            except Exception:
                out = "exc"
        finally:
            sys.settrace(old)
        if out == "tape" and len(tape) < 7:
            todo.append(tape + (1,))
            todo.append(tape + (0,))
        elif out == "ret":
            paths += 1
    for clause, msg in bad[:1]:
        col.fail(f"C09:{clause}", f"[{ver}] {msg}", dict(src=src, version=ver, trace=True), len(code.co_code))
    col.count("traced_transitions", len(seen_tr))
    col.count("traced_runs", runs)
    col.case(("trace", src), len(code.co_code), len(seen_tr) > 3 and paths > 0, sample=dict(traced=src[:400], transitions=len(seen_tr)), classes=["traced"])


def plan(tier, seed):
    specs = []
    if tier == "quick":
        specs += [("corpus", s, 16, 10**9) for s in range(16)]
        specs += [("gen", seed, s, 60) for s in range(8)]
        specs += [("trace", seed, s, 25) for s in range(8)]
        specs += [("warm",), ("huge", ["if"])]
        specs += [("child311", seed, s, 8, 10**9, 40) for s in range(8)]
    else:
        specs += [("corpus", s, 16, 10**9) for s in range(16)]
        specs += [("gen", seed, s, 1500) for s in range(16)]
        specs += [("trace", seed, s, 500) for s in range(16)]
        specs += [("warm",), ("huge", ["if"]), ("huge", ["while"]), ("huge", ["for"])]
        specs += [("child311", seed, s, 16, 10**9, 600) for s in range(16)]
    return specs


def finalize(cov, merged, tier):
    import opcode

    seen = sorted(k[3:] for k in merged["counts"] if k.startswith("op_"))
    own = sorted({opcode.opname[o] for o in set(opcode.hasjrel) | set(opcode.hasjabs)} | {"RETURN_VALUE", "RETURN_CONST"} & set(opcode.opmap))
    cov["opcode_coverage_312"] = dict(seen=seen, interpreter_jump_and_return_opcodes=own, not_seen=[o for o in own if o not in seen])
    cov["opcode_seen_311"] = sorted(k[6:] for k in merged["counts"] if k.startswith("op311_"))
    cov["interpreters_run"] = ["3.12"] + (["3.11"] if merged["counts"].get("py311_evaluated") else [])


def replay(inp):
    if inp.get("version") == "3.11":
        exe = py311()
        if exe is None:
            return []
        d = deps311()
        env = dict(os.environ, PYTHONPATH=f"{REPO}:{VERIF}:{d}", PYTHONHASHSEED="0", PYTHONDONTWRITEBYTECODE="1")
        work = VERIF / ".work"
        work.mkdir(exist_ok=True)
        if inp.get("src"):
            f = work / f"c09_replay_{os.getpid()}.json"
            f.write_text(json.dumps([inp["src"]]))
            cmd = [exe, "-m", "vpbt.c09_oracle", "0", "1", "1000000", str(f)]
            p = subprocess.run(cmd, capture_output=True, text=True, env=env, cwd=str(VERIF), timeout=600)
            r = json.loads(p.stdout.strip().splitlines()[-1])
            return [(f"C09:{c}", f"[3.11] {v['msg']}") for c, v in r["failures"].items()]
        # corpus function under 3.11: scan the module's shard
        mod = inp["function"].split(":")[0]
        code = f"import json,sys,logging; logging.disable(50)\nfrom vpbt import bytecode_model as bm, c09_oracle as O\nout=[]\nfor l,c in bm.corpus_codes(modules=[{mod!r}]):\n    if l=={inp['function']!r}:\n        try: O.check_code(c)\n        except O.V as v: out.append([v.clause,v.msg])\nprint(json.dumps(out))"
        p = subprocess.run([exe, "-c", code], capture_output=True, text=True, env=env, cwd=str(VERIF), timeout=600)
        return [(f"C09:{c}", f"[3.11] {m}") for c, m in json.loads(p.stdout.strip().splitlines()[-1])]
    col = Collector()
    if inp.get("warm"):
        _warm(col, "3.12", inp["src"], [tuple(a) for a in inp["warm"]])
    elif inp.get("trace"):
        _trace(col, "3.12", inp["src"])
    elif inp.get("src"):
        fn, codes = codes_of_source(inp["src"])
        for c in codes:
            _record(col, "3.12", "replay", c, inp["src"])
    elif inp["function"].startswith("huge:"):
        fn, codes = codes_of_source(long_body(inp["function"].split(":")[1], 33000))
        _record(col, "3.12", inp["function"], fn.__code__, None)
    else:
        mod = inp["function"].split(":")[0]
        for label, code in bm.corpus_codes(modules=[mod]):
            if label == inp["function"]:
                _record(col, "3.12", label, code)
    return [(s, f["msg"]) for s, f in col.failures.items()]
