"""C06 - see DESIGN.md section 8."""
from vpbt import graph_checks as G, sweep

PID = "C06"
RULE = ""
ASSUME = []
STAGES = None
_eval = G.generic_eval(PID, G.oracle_c06, stages=STAGES)
replay = G.generic_replay(PID, G.oracle_c06)
shrink = G.generic_shrink(replay)


def plan(tier, seed):
    return sweep.plan(tier, seed)


def run(spec):
    return sweep.run(spec, _eval)
