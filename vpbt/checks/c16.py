"""C16 - see DESIGN.md section 8."""
from vpbt import graph_checks as G, sweep

PID = "C16"
RULE = 'Cases: closed CFGs (<=2 ordered distinct successors, one entry, all blocks reachable and reaching an exit) from (a) exhaustive lexicographic enumeration of all labelled graphs with n<=4 blocks and a seed-offset slice (quick) / all (thorough) of n=5, canonical BFS-numbered forms of n=6,7 with name-style relabellings (thorough), (b) Hypothesis strategy closed_cfgs (modes uniform/local/motif/structured/dense, construction+repair, name styles num/perm/bytecode/alpha), (c) CFG shapes of standard-library functions computed by an own dis-based builder, (d) CFG shapes that the source front end builds for generated functions, (e) 16 coverage-guided libFuzzer campaigns (atheris; bytes decoded into block count, name style, arity and targets per block, then the same deterministic repair; origin fuzz); every case is run through the stage prefixes closed, loop, branch (and restructure() for even sizes). Besides the stage prefixes closed / loop / branch every graph runs one of: restructure(), the level-wise drivers (top-level transformation + the stage driver of every sub-graph), write/read between the stages (dict, YAML) with a level-wise branch stage, restructure() after restructure_loop(). A quarter of the small graphs runs with debug logging switched on; graphs of >= 80 blocks run under the default recursion limit. Hypothesis modes: uniform, local, motif, structured (with do-while shapes), dense, compose (small closed CFGs substituted into one another), nests (loop nests in nested contexts, tight), wide (many headers / exits / tail headers); name styles num, perm, bytecode, alpha, gen, zpad, words; large regular graphs (257 / 300 blocks), deep nests, many-way loops (5-13 exits / entries), joined exits. Also: flat graphs with many-way blocks (out-degree to 6); enumeration must be repeatable and agree with the container / Mapping protocol; a view object kept across the next stage enumerates the graph as it then is. Distinct = canonical hash of the named input graph. Non-trivial = at some level a region is followed by another item of the same level.'
ASSUME = []
STAGES = None
_eval = G.generic_eval(PID, G.oracle_c16, stages=STAGES)
replay = G.generic_replay(PID, G.oracle_c16)
shrink = G.generic_shrink(replay)


def _run_multiway(spec):
    """flat graphs with many-way blocks (out-degree up to 6): iteration and view of the graph as given"""
    from hypothesis import HealthCheck, Phase, given, seed as hseed, settings

    from vpbt import gen_graphs as gg, models as M
    from vpbt.core import Collector, h64

    _, seed, shard, examples = spec
    col = Collector()

    @hseed(h64(("c16mw", seed, shard)))
    @settings(max_examples=examples, database=None, deadline=None, phases=[Phase.generate], suppress_health_check=list(HealthCheck))
    @given(g=gg.multiway_graphs())
    def t(g):
        scfg = M.mk_scfg(g)
        try:
            M.check_iteration(scfg)
            M.check_view(scfg, "top")
        except M.Viol as v:
            col.fail(f"C16:mw:{v.clause}", f"[many-way flat graph] {v.msg}", dict(multiway=[[k, list(v_)] for k, v_ in g.items()]), len(g))
        deg = max(len(v_) for v_ in g.values())
        col.case(("mw", tuple(g.items())), len(g), deg >= 4, sample=dict(graph=gg.graph_to_str(g), max_out_degree=deg, origin="multiway"), classes=["origin:multiway", f"outdeg={min(deg, 6)}"])

    t()
    return col.result()


def plan(tier, seed):
    return sweep.plan(tier, seed, fuzz_mod=__name__) + [("multiway", seed, s, 2000 if tier == "quick" else 30000) for s in range(8)]


def run(spec):
    if spec[0] == "multiway":
        return _run_multiway(spec)
    return sweep.run(spec, _eval)


_generic_replay = replay


def replay(inp):
    if "multiway" in inp:
        from vpbt import models as M

        g = {k: tuple(v) for k, v in inp["multiway"]}
        scfg = M.mk_scfg(g)
        try:
            M.check_iteration(scfg)
            M.check_view(scfg, "top")
        except M.Viol as v:
            return [(f"C16:mw:{v.clause}", v.msg)]
        return []
    return _generic_replay(inp)


shrink = G.generic_shrink(replay)
