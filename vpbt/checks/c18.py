"""C18 - generated names are fresh: never reused, never clobbering a block."""

from __future__ import annotations

import copy
import re

from hypothesis import HealthCheck, Phase, given, seed as hseed, settings, strategies as st
from hypothesis.stateful import RuleBasedStateMachine, rule, run_state_machine_as_test

from numba_scfg.core.datastructures import block_names as BN
from numba_scfg.core.datastructures.basic_block import SyntheticAssignment, SyntheticBranch
from numba_scfg.core.datastructures.scfg import SCFG, NameGenerator

from vpbt import gen_graphs as gg, models as M
from vpbt.core import Collector, h64, lib_frame, library_raised

PID = "C18"
RULE = (
    "Cases: (a) Hypothesis rule-based state machine over NameGenerator alone: interleaved new_block_name / new_region_name / new_var_name with the "
    "library's own kinds and adversarial kinds ('a', 'a_block_0', 'x_region', 'a_var_0', digits); model = set of names handed out. (b, c) histories over "
    "graphs: a closed CFG from closed_cfgs(max_n=9) whose block names are drawn from the generator's own namespace (synth_asign_block_N, "
    "synth_exit_latch_block_N, loop_region_N, ...) or front-end style, followed by a drawn interleaving of the stages closed / loop / branch with dict and "
    "YAML write-read round trips. A harness-side wrapper logs every name the generator hands out; after each stage: no generated name equals a name (block, "
    "region, control variable) that existed before the stage; every pre-existing block/region survives with its class and payload; the number of blocks and "
    "regions grew by exactly the number of block/region names generated (meta-region names excluded) - a clobbered block shows as a shortfall; the product "
    "walk of C01 still passes against the input graph; after construction, after every stage and after every read-back a copy of the graph's generator is asked "
    "for a block, a region and a variable name of every kind that occurs in the graph's names, none may be an existing name. Further legs: one NameGenerator object serving a sequence of 300 (quick) / 5000 graphs that each hold the name it would hand out next, earlier graphs dropped (memory reuse); the generators of the graphs one FlowInfo builds when asked twice. Non-trivial = the history has a write-read between two stages or the input uses a generator-style "
    "name. Distinct = hash of the history."
)
ASSUME = ["kinds are strings (the API's type); names of input blocks are strings"]

KINDS = sorted(BN.block_types) + ["loop", "head", "branch", "tail", "meta", "control", "exit", "backedge"]
ADV = ["a", "a_block_0", "a_block", "x_region", "x_region_1", "a_var_0", "__scfg_a", "0", "1", "10", "", "_", "block", "region_0"]


def _machine(col):
    class NG(RuleBasedStateMachine):
        def __init__(self):
            super().__init__()
            self.g = NameGenerator()
            self.seen = set()
            self.ops = []
            self.dead = False

        def _new(self, fn, kind):
            if self.dead:
                return
            name = getattr(self.g, fn)(kind)
            self.ops.append([fn, kind])
            if name in self.seen:
                self.dead = True
                col.fail("C18:N-reuse", f"{fn}({kind!r}) returned {name!r} which was handed out before", dict(namegen_ops=list(self.ops)), len(self.ops))
            self.seen.add(name)

        @rule(kind=st.one_of(st.sampled_from(KINDS), st.sampled_from(ADV)))
        def block(self, kind):
            self._new("new_block_name", kind)

        @rule(kind=st.one_of(st.sampled_from(KINDS), st.sampled_from(ADV)))
        def region(self, kind):
            self._new("new_region_name", kind)

        @rule(kind=st.one_of(st.sampled_from(KINDS), st.sampled_from(ADV)))
        def var(self, kind):
            self._new("new_var_name", kind)

        def teardown(self):
            if self.ops:
                kinds = {k for _, k in self.ops}
                col.case(("ng", self.ops), len(self.ops), len(self.ops) >= 4 and len(kinds) >= 2, sample=dict(namegen_ops=self.ops[:12]), classes=["namegen"])
                col.count("name_requests", len(self.ops))

    return NG


# --------------------------------------------------------------------------
# histories over graphs

GEN_BLOCK_NAMES = [f"{k}_block_{i}" for k in (BN.SYNTH_ASSIGN, BN.SYNTH_EXIT_LATCH, BN.SYNTH_EXIT, BN.SYNTH_HEAD, BN.SYNTH_TAIL, BN.SYNTH_FILL, BN.SYNTH_RETURN, BN.SYNTH_EXIT_BRANCH, BN.BASIC) for i in range(3)] + [
    f"{k}_region_{i}" for k in ("loop", "head", "branch", "tail", "meta") for i in range(2)
] + [
    # blocks spelled like generated VARIABLE names, and names whose kind is itself a generated name (what
    # new_block_name(<name of an existing block>) hands out, e.g. for clones)
    f"__scfg_{k}_var_{i}__" for k in ("backedge", "exit", "control") for i in range(2)
] + [f"{BN.BASIC}_block_0_block_{i}" for i in range(2)] + [f"loop_region_0_region_{i}" for i in range(2)] + [f"{BN.SYNTH_ASSIGN}_block_1_block_0"]


class _Monitor:
    """wraps the three NameGenerator methods (harness side, no source hook)."""

    def __init__(self):
        self.log = []

    def __enter__(self):
        self.orig = {}
        for fn in ("new_block_name", "new_region_name", "new_var_name"):
            o = getattr(NameGenerator, fn)
            self.orig[fn] = o

            def wrap(self_, kind, _o=o, _fn=fn, _log=self.log):
                n = _o(self_, kind)
                _log.append((_fn, kind, n))
                return n

            setattr(NameGenerator, fn, wrap)
        return self

    def __exit__(self, *a):
        for fn, o in self.orig.items():
            setattr(NameGenerator, fn, o)


def entities(scfg):
    flat = M.Flat(scfg)
    ents = {}
    variables = set()
    for k, b in flat.blocks.items():
        payload = None
        if isinstance(b, SyntheticAssignment):
            payload = tuple(sorted(b.variable_assignment.items()))
            variables |= set(b.variable_assignment)
        elif isinstance(b, SyntheticBranch):
            payload = (b.variable, tuple(sorted(b.branch_value_table)))
            variables.add(b.variable)
        elif hasattr(b, "begin"):
            payload = (b.begin, b.end)
        ents[k] = (type(b).__name__, payload)
    for k, r in flat.regions.items():
        ents[k] = ("RegionBlock", r.kind)
    return ents, variables


_FORMS = [re.compile(r"^(?P<kind>.+)_block_\d+$"), re.compile(r"^(?P<kind>.+)_region_\d+$"), re.compile(r"^__scfg_(?P<kind>.+)_var_\d+__$")]


def probe_generator(scfg, when):
    """Whatever will be requested next - any kind that occurs in the names of
    the graph, in any of the three name forms - must not be an existing name.
    Requests are made on a copy of the generator."""
    ents, variables = entities(scfg)
    taken = set(ents) | variables | {scfg.region.name}
    kinds = set()
    for n in taken:
        for f in _FORMS:
            m = f.match(n)
            if m:
                kinds.add(m.group("kind"))
    gen = copy.deepcopy(scfg.name_gen)
    for kind in sorted(kinds):
        for fn in ("new_block_name", "new_region_name", "new_var_name"):
            n = getattr(gen, fn)(kind)
            if n in taken:
                raise M.Viol("N-probe", f"{when}: the generator of the graph would hand out {n!r} for {fn}({kind!r}), which names an existing block/region/variable")
    return len(kinds)


STAGE_FN = dict(closed=lambda s: s.join_returns(), loop=lambda s: s.restructure_loop(), branch=lambda s: s.restructure_branch())


def run_history(g, payload, ops):
    """ops: list of 'closed' | 'loop' | 'branch' | 'dict' | 'yaml'.  raises M.Viol"""
    scfg = M.mk_scfg(g, payload)
    info = dict(generated=0, reads_between=False)
    probe_generator(scfg, "after construction")
    staged = False
    for i, op in enumerate(ops):
        if op in ("dict", "yaml"):
            try:
                if op == "dict":
                    scfg, _ = SCFG.from_dict(scfg.to_dict())
                else:
                    scfg, _ = SCFG.from_yaml(scfg.to_yaml())
            except Exception as e:
                raise M.Viol(f"N-io-raise:{type(e).__name__}", f"{op} round trip raised {type(e).__name__}: {e}")
            if staged and any(o in STAGE_FN for o in ops[i + 1 :]):
                info["reads_between"] = True
            probe_generator(scfg, f"after {op} read-back")
            continue
        staged = True
        try:
            before, vars_before = entities(scfg)
        except M.Viol as v:
            raise M.Viol(f"N-pre:{v.clause}", f"before {op}: {v.msg}")
        meta_before = scfg.region.name
        with _Monitor() as mon:
            try:
                STAGE_FN[op](scfg)
            except Exception as e:
                raise M.Viol(f"N-stage-raise:{type(e).__name__}@{lib_frame(e)}", f"stage {op} raised {type(e).__name__}: {e}")
        info["generated"] += len(mon.log)
        taken = set(before) | vars_before | {meta_before}
        for fn, kind, name in mon.log:
            if name in taken:
                raise M.Viol("N-clash", f"stage {op}: {fn}({kind!r}) handed out {name!r}, which names an existing block/region/variable")
            taken.add(name)
        try:
            after, _ = entities(scfg)
        except M.Viol as v:
            raise M.Viol(f"N-post:{v.clause}", f"after {op}: {v.msg}")
        for k, e in before.items():
            if k not in after:
                raise M.Viol("N-lost", f"stage {op}: pre-existing {e[0]} {k} disappeared")
            if after[k] != e:
                raise M.Viol("N-clobbered", f"stage {op}: pre-existing {k} was {e}, is now {after[k]}")
        made = [n for fn, kind, n in mon.log if fn != "new_var_name" and kind != "meta"]
        if len(after) != len(before) + len(made):
            raise M.Viol("N-count", f"stage {op}: {len(before)} entities + {len(made)} generated block/region names != {len(after)} entities afterwards")
        try:
            M.walk_flat(g, scfg)
        except M.Inconclusive:
            pass
        except M.Viol as v:
            raise M.Viol(f"N-walk:{v.clause}", f"after {op}: {v.msg}")
        probe_generator(scfg, f"after stage {op}")
    return info


@st.composite
def histories(draw):
    g = draw(gg.closed_cfgs(max_n=12, min_n=3, modes=["motif", "dense", "uniform", "local"]))
    style = draw(st.sampled_from(["gen", "gen", "bytecode", "num"]))
    if style == "gen":
        names = draw(st.lists(st.sampled_from(GEN_BLOCK_NAMES), min_size=len(g), max_size=len(g), unique=True))
        named = {names[i]: tuple(names[t] for t in g[i]) for i in sorted(g)}
    else:
        named = gg.restyle(g, style)
    stages = ["closed", "loop", "branch"][: draw(st.integers(1, 3))]
    ops = []
    if draw(st.integers(0, 2)) == 0:
        # directed: the whole pipeline with a write-read before the last stage
        ops = ["closed", "loop", draw(st.sampled_from(["dict", "yaml"])), "branch"]
        stages = []
    for s in stages:
        for _ in range(draw(st.integers(0, 2))):
            ops.append(draw(st.sampled_from(["dict", "yaml"])))
        ops.append(s)
    if draw(st.booleans()):
        ops.append(draw(st.sampled_from(["dict", "yaml"])))
    payload = draw(st.sampled_from(["plain", "bytecode"]))
    return named, payload, ops, style


def shared_generator(rounds, kinds=("synth_return", "synth_exit", "synth_tail")):
    """One NameGenerator object serves a sequence of graphs (SCFG(graph, name_gen=gen)); each graph already holds a
    block named like the name the generator would hand out next; earlier graphs are dropped (their memory is
    reused).  The generator must never hand out a name present in the graph it is serving.  raises M.Viol"""
    import gc

    from numba_scfg.core.datastructures.basic_block import BasicBlock

    gen = NameGenerator()
    for rnd in range(rounds):
        nxt = copy.deepcopy(gen).new_block_name("synth_return")
        blocks = {"a": BasicBlock(name="a", _jump_targets=("b", nxt)), "b": BasicBlock(name="b", _jump_targets=()), nxt: BasicBlock(name=nxt, _jump_targets=())}
        orig = set(blocks)  # the SCFG works on the mapping it is given
        scfg = SCFG(blocks, name_gen=gen)
        with _Monitor() as mon:
            scfg.join_returns()
        for fn, kind, name in mon.log:
            if name in orig:
                raise M.Viol("N-clash", f"round {rnd} of one generator serving a sequence of graphs: {fn}({kind!r}) handed out {name!r}, which names a block of the graph")
        if orig - set(scfg.graph) or any(type(scfg.graph[k]) is not BasicBlock for k in orig):
            raise M.Viol("N-clobbered", f"round {rnd}: a block of the input graph was overwritten ({sorted(scfg.graph)})")
        del scfg, blocks
        if rnd % 7 == 0:
            gc.collect()


def flowinfo_generators(limit):
    """graphs built by one FlowInfo object asked twice: each graph's own generator must not hand out a present name"""
    import dis

    from numba_scfg.core.datastructures.flow_info import FlowInfo

    from vpbt import bytecode_model as bm

    n = 0
    for label, code in bm.corpus_codes(0, 16):
        if not bm.eligible(code) or len(code.co_code) > 400:
            continue
        n += 1
        if n > limit:
            break
        try:
            fi = FlowInfo.from_bytecode(dis.Bytecode(code))
            graphs = [fi.build_basicblocks(), fi.build_basicblocks()]
        except Exception as e:
            if not library_raised(e):
                raise
            continue  # C09's business
        for k, g in enumerate(graphs):
            probe_generator(g, f"build #{k + 1} of one FlowInfo ({label})")
    return n


def run(spec):
    col = Collector()
    if spec[0] == "shared":
        try:
            shared_generator(spec[1])
            n = flowinfo_generators(spec[2])
            col.count("flowinfo_graphs_probed", 2 * n)
        except M.Viol as v:
            col.fail(f"C18:{v.clause}", v.msg, dict(shared_rounds=spec[1], flowinfo=spec[2]), 1)
        col.count("shared_generator_rounds", spec[1])
        col.case(("shared", spec[1]), spec[1], True, sample=dict(history="one generator serving a sequence of graphs", rounds=spec[1]), classes=["shared_generator"])
        return col.result()
    if spec[0] == "ng":
        _, seed, shard, examples = spec
        Mach = hseed(h64(("c18ng", seed, shard)))(_machine(col))
        run_state_machine_as_test(Mach, settings=settings(max_examples=examples, stateful_step_count=30, deadline=None, database=None, phases=[Phase.generate], suppress_health_check=list(HealthCheck)))
        return col.result()
    _, seed, shard, examples = spec

    @hseed(h64(("c18h", seed, shard)))
    @settings(max_examples=examples, database=None, deadline=None, phases=[Phase.generate], suppress_health_check=list(HealthCheck))
    @given(h=histories())
    def t(h):
        named, payload, ops, style = h
        try:
            info = run_history(named, payload, ops)
        except M.Viol as v:
            col.fail(f"C18:{v.clause}", v.msg, dict(graph=gg.graph_to_json(named), payload=payload, ops=ops), len(named) + len(ops))
            info = dict(generated=0, reads_between=False)
        col.count("names_generated", info["generated"])
        col.case((gg.gkey(named), payload, tuple(ops)), len(named), info["reads_between"] or style == "gen", sample=dict(graph=gg.graph_to_str(named), ops=ops), classes=["history", "style:" + style] + (["read_between_stages"] if info["reads_between"] else []))

    t()
    return col.result()


def plan(tier, seed):
    if tier == "quick":
        return [("shared", 300, 40)] + [("ng", seed, s, 150) for s in range(4)] + [("hist", seed, s, 200) for s in range(11)]
    return [("shared", 5000, 400)] + [("ng", seed, s, 3000) for s in range(8)] + [("hist", seed, s, 3000) for s in range(23)]


def replay(inp):
    if "shared_rounds" in inp:
        try:
            shared_generator(inp["shared_rounds"])
            flowinfo_generators(inp.get("flowinfo", 40))
        except M.Viol as v:
            return [(f"C18:{v.clause}", v.msg)]
        return []
    if "namegen_ops" in inp:
        g = NameGenerator()
        seen = set()
        for fn, kind in inp["namegen_ops"]:
            n = getattr(g, fn)(kind)
            if n in seen:
                return [("C18:N-reuse", f"{fn}({kind!r}) returned {n!r} again")]
            seen.add(n)
        return []
    try:
        run_history(gg.graph_from_json(inp["graph"]), inp["payload"], inp["ops"])
    except M.Viol as v:
        return [(f"C18:{v.clause}", v.msg)]
    return []


def shrink(fail):
    inp = fail["replay"]
    if "ops" not in inp:
        return fail
    sig = fail["sig"]
    ops = list(inp["ops"])
    changed = True
    while changed:
        changed = False
        for i in range(len(ops)):
            cand = ops[:i] + ops[i + 1 :]
            if any(s == sig for s, _ in replay(dict(inp, ops=cand))):
                ops = cand
                changed = True
                break
    r = [m for s, m in replay(dict(inp, ops=ops)) if s == sig]
    if r:
        fail = dict(fail, replay=dict(inp, ops=ops), msg=r[0])
    return fail
