"""C05 - original blocks are conserved (all payload types)."""
from vpbt import graph_checks as G, sweep

PID = "C05"
RULE = ""
ASSUME = []
_eval = G.generic_eval(PID, G.oracle_c05, payloads=("plain", "bytecode"))
replay = G.generic_replay(PID, G.oracle_c05)
shrink = G.generic_shrink(replay)


def plan(tier, seed):
    return sweep.plan(tier, seed)


def run(spec):
    return sweep.run(spec, _eval)
