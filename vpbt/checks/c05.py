"""C05 - original blocks are conserved (all payload types)."""
from vpbt import graph_checks as G, sweep

PID = "C05"
RULE = "Cases: closed CFGs (<=2 ordered distinct successors, one entry, all blocks reachable and reaching an exit) from (a) exhaustive lexicographic enumeration of all labelled graphs with n<=4 blocks and a seed-offset slice (quick) / all (thorough) of n=5, canonical BFS-numbered forms of n=6,7 with name-style relabellings (thorough), (b) Hypothesis strategy closed_cfgs (modes uniform/local/motif/structured/dense, construction+repair, name styles num/perm/bytecode/alpha), (c) CFG shapes of standard-library functions computed by an own dis-based builder, (d) CFG shapes that the source front end builds for generated functions, (e) 16 coverage-guided libFuzzer campaigns (atheris; bytes decoded into block count, name style, arity and targets per block, then the same deterministic repair; origin fuzz); every case is run through the stage prefixes closed, loop, branch (and restructure() for even sizes). Besides the stage prefixes closed / loop / branch every graph runs one of: restructure(), the level-wise drivers (top-level transformation + the stage driver of every sub-graph), write/read between the stages (dict, YAML) with a level-wise branch stage, restructure() after restructure_loop(). A quarter of the small graphs runs with debug logging switched on; graphs of >= 80 blocks run under the default recursion limit. Hypothesis modes: uniform, local, motif, structured (with do-while shapes), dense, compose (small closed CFGs substituted into one another), nests (loop nests in nested contexts, tight), wide (many headers / exits / tail headers); name styles num, perm, bytecode, alpha, gen, zpad, words; large regular graphs (257 / 300 blocks), deep nests, many-way loops (5-13 exits / entries), joined exits. Distinct = canonical hash of the named input graph. Payload rotates plain / bytecode-range / AST statement lists (identity of the tree list and of every statement object is compared). Non-trivial = some original two-way block had both successors renamed."
ASSUME = []
_eval = G.generic_eval(PID, G.oracle_c05, payloads=("plain", "bytecode", "ast"))
replay = G.generic_replay(PID, G.oracle_c05)
shrink = G.generic_shrink(replay)


def plan(tier, seed):
    return sweep.plan(tier, seed, fuzz_mod=__name__)


def run(spec):
    return sweep.run(spec, _eval)
