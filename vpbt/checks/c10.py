"""C10 - code generation emits every block exactly once, validly, hygienically."""

from __future__ import annotations

import ast
import re
from collections import Counter

from hypothesis import HealthCheck, Phase, given, seed as hseed, settings, strategies as st

from numba_scfg.core.datastructures.ast_transforms import SCFG2AST
from numba_scfg.core.datastructures.basic_block import (
    PythonASTBlock,
    SyntheticAssignment,
    SyntheticExitBranch,
    SyntheticExitingLatch,
    SyntheticHead,
)

from vpbt import ast_checks as A, gen_graphs as gg, gen_programs as gp, models as M, prog_check as P, pyexec as X
from vpbt.core import Collector, h64, lib_frame, library_raised

PID = "C10"
RULE = (
    "Cases: (programs) functions drawn by gen_programs.programs through AST2SCFG -> restructure -> SCFG2AST; (graphs, G4) closed CFGs from "
    "closed_cfgs(max_n=10) whose blocks carry generated statements e(k), two-way blocks end in a test d(k), exits in 'return e(k)', restructured and handed "
    "to the code generator directly (shapes the source front end cannot produce: irreducible, multi-exit). Oracle: static census of the returned "
    "FunctionDef by object identity - every statement of every AST block exactly once (a fall-through 'return v' as the assignment of the same v to the "
    "return-value variable), every two-way block's test as the test of exactly one If, the multiset of (variable, constant) assignments of all "
    "SyntheticAssignment blocks, one membership-test If per extra target of head / exit-branch blocks, one while per loop region and one continue-flag "
    "update per exiting latch; ast.unparse + compile succeed; names bound beyond the original's match __scfg_*__, names read beyond are __scfg_*__ or "
    "iter/next; generating code a second time from the same graph gives the same text. For G4 additionally: executing the output on all decision tapes reproduces the block trace of an own interpreter of the input graph. "
    "NotImplementedError = refusal (allowed, counted). Further legs: the same grammar driven coverage-guided by libFuzzer (atheris) through Hypothesis' fuzz_one_input; fixed template families (loops with 3-13 exits, 3-13-arm elif chains, 3-13-operand and/or chains, 3-7-deep while nests, while-True idioms) and a slice (quick) / all (thorough) of an exhaustive family of 3768 loops whose body is an if/elif/else chain over every combination of pass / continue / break / return / statement arms with every kind of tail. Non-trivial = the restructured graph has a synthetic assignment block (the census covers paths "
    "no tape takes). Distinct = hash of the source / graph."
)
ASSUME = ["the census is static: it covers code on paths that no explored input takes", "the code generator refuses graphs in which an original block is its own loop latch; refusal share is reported"]

SCFG_NAME = re.compile(r"^__scfg_.*__$")


def census(scfg, fdef, orig_src):
    """raises M.Viol; returns info dict."""
    flat = M.Flat(scfg)
    occ = Counter(id(n) for n in ast.walk(fdef))
    if_tests = Counter(id(n.test) for n in ast.walk(fdef) if isinstance(n, ast.If))
    assigns = [n for n in ast.walk(fdef) if isinstance(n, ast.Assign)]
    # (no reliance on the generator's private variable names: a fall-through
    # return is recognised by the identity of its value object)
    assign_value = Counter(id(n.value) for n in assigns if len(n.targets) == 1 and isinstance(n.targets[0], ast.Name))
    block_stmt_ids = set()
    nstmts = 0
    for name, b in flat.blocks.items():
        if not isinstance(b, PythonASTBlock):
            continue
        tree = list(b.tree)
        two_way = len(b.jump_targets) == 2
        test = None
        if two_way:
            if not tree:
                raise M.Viol("G-shape", f"two-way block {name} is empty")
            last = tree.pop()
            test = last.value if isinstance(last, ast.Expr) else last
            block_stmt_ids.add(id(last))
            if if_tests[id(test)] != 1:
                raise M.Viol("G-test", f"test '{ast.unparse(test)}' of block {name} is the condition of {if_tests[id(test)]} if-statements")
        for i, stmt in enumerate(tree):
            nstmts += 1
            block_stmt_ids.add(id(stmt))
            is_last = i == len(tree) - 1
            if is_last and isinstance(stmt, ast.Return) and len(b._jump_targets) == 1 and not two_way:
                # fall-through return: the same value object assigned to the return variable
                if stmt.value is None:
                    n = sum(1 for a in assigns if id(a) not in block_stmt_ids and len(a.targets) == 1 and isinstance(a.targets[0], ast.Name) and SCFG_NAME.match(a.targets[0].id) and isinstance(a.value, ast.Constant) and a.value.value is None)
                    if n < 1:
                        raise M.Viol("G-return", f"plain return of block {name} is not emitted")
                elif assign_value[id(stmt.value)] != 1:
                    raise M.Viol("G-return", f"'return {ast.unparse(stmt.value)}' of block {name} is emitted {assign_value[id(stmt.value)]} times as return-value assignment")
                continue
            if occ[id(stmt)] != 1:
                raise M.Viol("G-stmt", f"statement '{ast.unparse(stmt)}' of block {name} occurs {occ[id(stmt)]} times in the output")
    # synthetic assignments
    ctrl_vars = set()
    want = Counter()
    for name, b in flat.blocks.items():
        if isinstance(b, SyntheticAssignment):
            for k, v in b.variable_assignment.items():
                want[(k, v)] += 1
                ctrl_vars.add(k)
        if hasattr(b, "variable") and b.variable:
            ctrl_vars.add(b.variable)
    got = Counter()
    for a in assigns:
        if id(a) in block_stmt_ids or len(a.targets) != 1 or not isinstance(a.targets[0], ast.Name):
            continue
        t = a.targets[0].id
        if t in ctrl_vars and isinstance(a.value, ast.Constant) and isinstance(a.value.value, int) and not isinstance(a.value.value, bool):
            got[(t, a.value.value)] += 1
    if got != want:
        raise M.Viol("G-assign", f"synthetic assignments: missing {sorted((want - got).items())[:4]}, extra {sorted((got - want).items())[:4]}")
    # membership tests
    want_if = sum(len(b.jump_targets) - 1 for b in flat.blocks.values() if type(b) in (SyntheticHead, SyntheticExitBranch))
    got_if = sum(1 for n in ast.walk(fdef) if isinstance(n, ast.If) and isinstance(n.test, ast.Compare) and len(n.test.ops) == 1 and isinstance(n.test.ops[0], ast.In) and isinstance(n.test.left, ast.Name) and n.test.left.id in ctrl_vars and id(n.test) not in block_stmt_ids)
    if got_if != want_if:
        raise M.Viol("G-cascade", f"{got_if} membership-test ifs, head/exit-branch blocks need {want_if}")
    from numba_scfg.core.datastructures.basic_block import SyntheticFill

    nfill = sum(1 for b in flat.blocks.values() if isinstance(b, SyntheticFill))
    npass = sum(1 for n in ast.walk(fdef) if isinstance(n, ast.Pass) and id(n) not in block_stmt_ids)
    if npass != nfill:
        raise M.Viol("G-fill", f"{npass} synthetic pass statements for {nfill} fill blocks")
    nloops = sum(1 for r in flat.regions.values() if r.kind == "loop")
    whiles = [n for n in ast.walk(fdef) if isinstance(n, ast.While)]
    if nloops != len(whiles):
        raise M.Viol("G-while", f"{len(whiles)} while loops for {nloops} loop regions")
    flags = {n.test.id for n in whiles if isinstance(n.test, ast.Name)}
    if len(flags) != len(whiles) and whiles:
        # nested loops may reuse a flag name only if they are not nested in each other; be conservative
        pass
    nlatch = sum(1 for b in flat.blocks.values() if isinstance(b, SyntheticExitingLatch))
    # every loop flag is set once in front of its loop and updated once per exiting latch
    nupd = sum(1 for a in assigns if id(a) not in block_stmt_ids and len(a.targets) == 1 and isinstance(a.targets[0], ast.Name) and a.targets[0].id in flags and not (isinstance(a.value, ast.Constant) and a.value.value is True))
    if nlatch != nupd:
        raise M.Viol("G-latch", f"{nupd} continue-flag updates for {nlatch} exiting latches")
    # validity
    try:
        new_src = ast.unparse(ast.fix_missing_locations(fdef))
        compile(new_src, "<regenerated>", "exec")
    except Exception as e:
        raise M.Viol("G-compile", f"output does not unparse/compile: {type(e).__name__}: {e}")
    # hygiene
    def names(src):
        t = ast.parse(src)
        bound, read = set(), set()
        for n in ast.walk(t):
            if isinstance(n, ast.Name):
                (bound if isinstance(n.ctx, (ast.Store, ast.Del)) else read).add(n.id)
            elif isinstance(n, ast.arg):
                bound.add(n.arg)
        return bound, read

    ob, orr = names(orig_src)
    nb, nr = names(new_src)
    bad = sorted(x for x in nb - ob if not SCFG_NAME.match(x))
    if bad:
        raise M.Viol("G-hygiene-bound", f"output binds {bad} which the original does not bind and which are not in the __scfg_*__ namespace")
    bad = sorted(x for x in nr - orr - ob if not SCFG_NAME.match(x) and x not in ("iter", "next"))
    if bad:
        raise M.Viol("G-hygiene-read", f"output reads {bad} beyond the original's names")
    return dict(statements=nstmts, synthetic_assignments=sum(want.values()), new_src=new_src)


def again(orig_src, scfg, first_src):
    """metamorphic: generating code a second time from the same restructured
    graph gives the same text (the generator must not consume the graph)."""
    try:
        second = ast.unparse(ast.fix_missing_locations(SCFG2AST(orig_src, scfg)))
    except Exception as e:
        raise M.Viol("G-again", f"second code generation from the same graph raised {type(e).__name__}: {e}")
    if second != first_src:
        raise M.Viol("G-again", "second code generation from the same graph gives different source")


# --------------------------------------------------------------------------
# programs through the pipeline


def check_program(src, arg_idx, depth, max_runs, recorded):
    try:
        new_src, scfg, fdef = A.roundtrip(src)
    except A.Refused as r:
        return "refused", None, str(r), {}
    except A.Internal as e:
        return "fail", f"C10:internal:{e.sig}", str(e), {}
    try:
        info = census(scfg, fdef, src)
        again(src, scfg, info["new_src"])
    except M.Viol as v:
        return "fail", f"C10:{v.clause}", v.msg, {}
    return "ok", None, "", dict(statements=info["statements"], synthetic_assignments=info["synthetic_assignments"])


def _nontrivial(status, feats, stats):
    return status == "ok" and stats.get("synthetic_assignments", 0) > 0


_prun, _pplan, _preplay, _pshrink = P.make(PID, check_program, _nontrivial)
PROG_BUILD = _prun.build

# --------------------------------------------------------------------------
# G4: AST-payload graphs


def g4_trees(g):
    trees = {}
    k = 0
    for name, ss in g.items():
        k += 1
        stmts = [ast.parse(f"e({k}, {name!r})").body[0]]
        if len(ss) == 2:
            k += 1
            stmts.append(ast.parse(f"d({k})").body[0].value)
        elif len(ss) == 0:
            k += 1
            stmts.append(ast.parse(f"return e({k})").body[0])
        trees[name] = stmts
    return trees


def check_g4(g, depth=9, max_runs=96):
    """-> (status, sig, msg, info)"""
    trees = g4_trees(g)
    ref_blocks = {name: (list(trees[name]), list(ss)) for name, ss in g.items()}
    scfg = M.mk_scfg(g, "ast", trees)
    try:
        scfg.restructure()
    except Exception as e:
        if not library_raised(e):
            raise
        return "not_evaluated", None, str(e), {}
    orig = "def g():\n    pass\n"
    try:
        fdef = SCFG2AST(orig, scfg)
    except NotImplementedError as e:
        return "refused", None, str(e), {}
    except Exception as e:
        return "fail", f"C10:g4:internal:{type(e).__name__}@{lib_frame(e)}", f"SCFG2AST raised {type(e).__name__}: {e}", {}
    try:
        info = census(scfg, fdef, "def g():\n    d\n    e\n")
        again(orig, scfg, info["new_src"])
    except M.Viol as v:
        return "fail", f"C10:g4:{v.clause}", v.msg, {}
    entry = M.find_entry(g)
    fac_ref, _ = X.factory_from_cfg(ref_blocks, entry, argspec="")
    fac_out = X.factory_from_source(info["new_src"], ast.parse(info["new_src"]).body[0].name)
    r = X.explore(fac_ref, fac_out, (), max_depth=depth, max_runs=max_runs)
    if r["mismatch"]:
        return "fail", "C10:g4:trace", f"output does not reproduce the block trace of the input graph: {r['mismatch']}", {}
    return "ok", None, "", dict(statements=info["statements"], synthetic_assignments=info["synthetic_assignments"], runs=r["runs"], complete=r["complete"])


def _run_g4(spec):
    _, seed, shard, examples, max_n = spec
    col = Collector()

    @hseed(h64(("c10g4", seed, shard)))
    @settings(max_examples=examples, database=None, deadline=None, phases=[Phase.generate], suppress_health_check=list(HealthCheck))
    @given(g=gg.closed_cfgs(max_n=max_n, modes=["structured", "structured", "local", "motif", "uniform", "compose"]), style=st.sampled_from(["num", "alpha", "perm", "perm"]), pk=st.integers(0, 2**20))
    def t(g, style, pk):
        from vpbt.sweep import _perm

        named = gg.restyle(g, style, _perm(len(g), pk) if style == "perm" else None)  # perm: the entry is not the block named '0'

        status, sig, msg, info = check_g4(named)
        col.count("g4_" + status)
        for k, v in info.items():
            if isinstance(v, int):
                col.count("g4_" + k, v)
        if status == "fail":
            col.fail(sig, msg, dict(graph=gg.graph_to_json(named)), len(named))
        col.case(("g4", gg.gkey(named)), len(named), status == "ok" and info.get("synthetic_assignments", 0) > 0, sample=dict(graph=gg.graph_to_str(named), status=status), classes=["g4", "g4_" + status] + gg.classify(g))

    t()
    return col.result()


# --------------------------------------------------------------------------
# state carried between calls: one transformer object used for a sequence of graphs


def check_reuse(srcs):
    """One SCFG2ASTTransformer object regenerates a sequence of different
    functions; every output must be the text a fresh transformer gives for the
    same graph.  -> (status, sig, msg, info)"""
    from numba_scfg.core.datastructures.ast_transforms import AST2SCFG, SCFG2ASTTransformer

    shared = SCFG2ASTTransformer()
    done = 0
    refused = 0

    def gen(tr, src, scfg):
        try:
            return ("ok", ast.unparse(ast.fix_missing_locations(tr.transform(original=ast.parse(src).body[0], scfg=scfg))))
        except Exception as e:
            if not library_raised(e):
                raise
            return ("raised", type(e).__name__)

    for i, src in enumerate(srcs):
        try:
            scfg = AST2SCFG(src)
            scfg.restructure()
        except Exception as e:
            if not library_raised(e):
                raise
            continue  # front end / restructuring failures are judged elsewhere
        fresh = gen(SCFG2ASTTransformer(), src, scfg)
        reused = gen(shared, src, scfg)  # also when the fresh one refuses: an aborted transform() must leave nothing behind
        if reused != fresh:
            what = "emits different code" if reused[0] == fresh[0] == "ok" else f"ends with {reused[0]} {reused[1] if reused[0] != 'ok' else ''} where a fresh transformer ends with {fresh[0]} {fresh[1] if fresh[0] != 'ok' else ''}"
            return "fail", "C10:G-reuse", f"a transformer object that already handled {done} function(s) ({refused} of them refused / aborted) {what} for function #{i}", {}
        done += 1
        refused += fresh[0] != "ok"
    return "ok", None, "", dict(reused=done, refused=refused)


def _run_reuse(spec):
    _, seed, shard, examples = spec
    col = Collector()
    from vpbt import gen_programs as gp

    @hseed(h64(("c10reuse", seed, shard)))
    @settings(max_examples=examples, database=None, deadline=None, phases=[Phase.generate], suppress_health_check=list(HealthCheck))
    @given(srcs=st.lists(gp.programs(dict(for_tuple_target=False), max_depth=3), min_size=2, max_size=4))
    def t(srcs):
        status, sig, msg, info = check_reuse(srcs)
        col.count("reuse_" + status)
        col.count("reuse_functions", info.get("reused", 0))
        if status == "fail":
            col.fail(sig, msg, dict(sequence=list(srcs)), sum(len(x) for x in srcs))
        col.count("reuse_after_refusal", 1 if info.get("refused") else 0)
        col.case(("reuse", tuple(srcs)), sum(len(x) for x in srcs), info.get("reused", 0) >= 2, sample=dict(sequence=list(srcs), status=status), classes=["reuse"])

    t()
    return col.result()


def _run_manyway(spec):
    """loops with 5-13 distinct exits / entries: many-way dispatch cascades in the generated code"""
    from vpbt.checks import c02

    col = Collector()
    for f, k in c02.MANYWAY:
        for style in ("num", "perm"):
            g = f(k)
            named = gg.restyle(g, style, list(range(len(g) - 1, -1, -1)) if style == "perm" else None)
            status, sig, msg, info = check_g4(named)
            col.count("g4_" + status)
            if status == "fail":
                col.fail(sig, msg, dict(graph=gg.graph_to_json(named)), len(named))
            col.case(("g4mw", f.__name__, k, style), len(named), status == "ok", sample=dict(graph=gg.graph_to_str(named), status=status, dispatch_width=k), classes=["g4", "manyway", "g4_" + status])
    return col.result()


def run(spec):
    if spec[0] == "manyway":
        return _run_manyway(spec)
    if spec[0] == "g4":
        return _run_g4(spec)
    if spec[0] == "reuse":
        return _run_reuse(spec)
    return _prun(spec)


def plan(tier, seed):
    if tier == "quick":
        return _pplan(tier, seed, quick=(150, 0, 0, 40, 1), fuzz_mod=__name__) + [("g4", seed, s, 120, 10) for s in range(16)] + [("reuse", seed, s, 40) for s in range(8)] + [("manyway",)]
    return _pplan(tier, seed, thorough=(2000, 0, 0, 300, 2), fuzz_mod=__name__) + [("g4", seed, s, 1500, 16) for s in range(32)] + [("reuse", seed, s, 600) for s in range(16)] + [("manyway",)]


def replay(inp):
    if "sequence" in inp:
        status, sig, msg, _ = check_reuse(inp["sequence"])
        return [(sig, msg)] if status == "fail" else []
    if "graph" in inp:
        status, sig, msg, _ = check_g4(gg.graph_from_json(inp["graph"]))
        return [(sig, msg)] if status == "fail" else []
    return _preplay(inp)


def shrink(fail):
    if "sequence" in fail["replay"]:
        seq = list(fail["replay"]["sequence"])
        changed = True
        while changed and len(seq) > 2:
            changed = False
            for i in range(len(seq)):
                cand = seq[:i] + seq[i + 1 :]
                if len(cand) >= 2 and check_reuse(cand)[0] == "fail":
                    seq, changed = cand, True
                    break
        return dict(fail, replay=dict(sequence=seq))
    if "graph" in fail["replay"]:
        from vpbt.graph_checks import generic_shrink

        return generic_shrink(replay)(fail)
    return _pshrink(fail)
