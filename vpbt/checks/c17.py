"""C17 - rendering never fails and draws exactly the graph (checked on the
generated DOT source through an own DOT parser, M9)."""

from __future__ import annotations

import ast
import dis
import re
from collections import Counter

from numba_scfg.core.datastructures.basic_block import (
    PythonASTBlock,
    PythonBytecodeBlock,
    SyntheticAssignment,
    SyntheticBranch,
)
from numba_scfg.core.datastructures.byte_flow import ByteFlow
from numba_scfg.rendering.rendering import ByteFlowRenderer, SCFGRenderer

from vpbt import bytecode_model as bm, dotparse, gen_graphs as gg, graph_checks as G, models as M, sweep
from vpbt.core import Collector, h64, library_raised

PID = "C17"
RULE = (
    "Cases: the shared closed-CFG sweep (enumerated n<=5 slice, Hypothesis graphs, corpus shapes) with plain, bytecode-range and AST payloads at the "
    "stage prefixes none/closed/loop/branch rendered by SCFGRenderer; plus ByteFlow objects of standard-library functions at every stage rendered by "
    "ByteFlowRenderer. Oracle: the DOT source is parsed by an own parser and compared with an own flattening of the hierarchy: node set, cluster tree, "
    "solid/dashed edge multisets with region targets resolved to the innermost header, label contents. Further legs: inputs with caller-declared back edges; the same renderer object asked twice, a second fresh rendering, and the graph untouched by rendering; AST statements edited in place and drawn again; flat graphs with many-way blocks; deeply nested graphs and many-way loops. Non-trivial = the drawing has an edge into a "
    "region whose header is itself a region. Distinct = hash of (input, payload)."
)
ASSUME = ["only the DOT source is judged (no viewer / PDF)", "ByteFlow cases are limited to functions for which ByteFlow.from_bytecode and restructuring complete (their failures belong to C09/C02)"]


def check_drawing(scfg, source, renderer, bcmap=None):
    try:
        root = dotparse.parse(source)
    except dotparse.DotError as e:
        raise M.Viol("D-parse", f"DOT source does not parse: {e}")
    flat = M.Flat(scfg)
    nodes = {}
    clusters = {}

    def rec(c, path):
        for n, attrs in c.nodes:
            if n in nodes:
                raise M.Viol("D-node-dup", f"node {n} drawn twice")
            nodes[n] = (path[-1] if path else None, attrs)
        for s in c.subs:
            if not s.name.startswith("cluster_"):
                raise M.Viol("D-cluster-name", f"subgraph {s.name!r} is not a cluster")
            rn = s.name[len("cluster_") :]
            if rn in clusters:
                raise M.Viol("D-cluster-dup", f"cluster {rn} drawn twice")
            clusters[rn] = (path[-1] if path else None, s.attrs)
            rec(s, path + [rn])

    rec(root, [])
    if set(nodes) != set(flat.blocks):
        raise M.Viol("D-nodes", f"nodes: missing {sorted(set(flat.blocks) - set(nodes))[:4]}, extra {sorted(set(nodes) - set(flat.blocks))[:4]}")
    if set(clusters) != set(flat.regions):
        raise M.Viol("D-clusters", f"clusters: missing {sorted(set(flat.regions) - set(clusters))[:4]}, extra {sorted(set(clusters) - set(flat.regions))[:4]}")
    for rn, (par, attrs) in clusters.items():
        if par != flat.parent[rn]:
            raise M.Viol("D-nesting", f"cluster {rn} drawn inside {par}, region lies in {flat.parent[rn]}")
        if rn not in attrs.get("label", ""):
            raise M.Viol("D-cluster-label", f"cluster {rn}: label {attrs.get('label')!r} lacks the region name")
    for n, (par, attrs) in nodes.items():
        if par != flat.parent[n]:
            raise M.Viol("D-node-place", f"node {n} drawn inside {par}, block lies in {flat.parent[n]}")
    solid, dashed = Counter(), Counter()
    for c in root.walk():
        for a, b, attrs in c.edges:
            (dashed if attrs.get("style") == "dashed" else solid)[(a, b)] += 1
    exp_s, exp_d = Counter(), Counter()
    deep = False
    for n, b in flat.blocks.items():
        for t in b.jump_targets:
            exp_s[(n, flat.resolve(t))] += 1
            if t in flat.regions and flat.regions[t].header in flat.regions:
                deep = True
        for t in b.backedges:
            exp_d[(n, flat.resolve(t))] += 1
    if solid != exp_s:
        raise M.Viol("D-edges", f"solid edges: missing {sorted((exp_s - solid).items())[:3]}, extra {sorted((solid - exp_s).items())[:3]}")
    if dashed != exp_d:
        raise M.Viol("D-backedges", f"dashed edges: missing {sorted((exp_d - dashed).items())[:3]}, extra {sorted((dashed - exp_d).items())[:3]}")
    for n, b in flat.blocks.items():
        label = nodes[n][1].get("label", "")
        # DOT line-break escapes are separators, not text
        label = label.replace("\\l", "\n").replace("\\n", "\n").replace("\\r", "\n")
        if n not in label:
            raise M.Viol("D-label-name", f"label of {n} lacks its name: {label!r}")
        if isinstance(b, SyntheticBranch):
            if b.variable not in label:
                raise M.Viol("D-label-var", f"label of {n} lacks control variable {b.variable}")
            for k, v in b.branch_value_table.items():
                # "<key> <some arrow> <target>": the arrow's spelling is the renderer's choice
                if not re.search(rf"(?<![\w-]){k}\s*[^\w\s\\]{{1,3}}\s*{re.escape(v)}(?!\w)", label):
                    raise M.Viol("D-label-table", f"label of {n} lacks table entry {k} -> {v}: {label!r}")
        elif isinstance(b, SyntheticAssignment):
            for k, v in b.variable_assignment.items():
                if not re.search(rf"{re.escape(k)}\s*[^\w\s\\]{{1,2}}\s*{v}(?!\w)", label):
                    raise M.Viol("D-label-assign", f"label of {n} lacks {k} = {v}")
        elif isinstance(b, PythonASTBlock):
            for stmt in b.tree:
                if ast.unparse(stmt) not in label:
                    raise M.Viol("D-label-ast", f"label of {n} lacks statement {ast.unparse(stmt)!r}: {label!r}")
        elif isinstance(b, PythonBytecodeBlock) and renderer == "byteflow" and bcmap is not None:
            for off, inst in bcmap.items():
                if b.begin <= off < b.end and not re.search(rf"(?<!\d){off}\s*:\s*{inst.opname}(?!\w)", label):
                    raise M.Viol("D-label-bytecode", f"label of {n} lacks '{off}: {inst.opname}'")
    return deep


STAGES = ("none", "declared", "closed", "loop", "branch")


def _build(g, stage, payload):
    """-> scfg or None when a stage driver of the library raised (C02's business)"""
    scfg = M.mk_scfg(g, payload, declare=stage == "declared")
    if stage not in ("none", "declared"):
        try:
            M.apply_stage(scfg, stage)
        except Exception as e:
            if not library_raised(e):
                raise
            return None
    return scfg


def _render_scfg(scfg):
    from vpbt import canon

    before = canon.dump(scfg, ordered=True)
    try:
        r = SCFGRenderer(scfg)
        src = r.render_scfg().source
        same = r.render_scfg().source  # the same renderer object asked for its drawing again
    except Exception as e:
        raise M.Viol(f"D-raise:{type(e).__name__}", f"SCFGRenderer raised {type(e).__name__}: {e}")
    if same != src:
        raise M.Viol("D-again", "asking the same renderer object for its drawing a second time gives a different DOT source")
    if canon.dump(scfg, ordered=True) != before:
        raise M.Viol("D-mutates", "rendering changed the graph it was given")
    # a second drawing of the same graph by a fresh renderer is the same text (nothing is consumed or remembered)
    try:
        src2 = SCFGRenderer(scfg).render_scfg().source
    except Exception as e:
        raise M.Viol(f"D-raise:{type(e).__name__}", f"second SCFGRenderer raised {type(e).__name__}: {e}")
    if src2 != src:
        raise M.Viol("D-again", "drawing the same graph a second time gives a different DOT source")
    return src


def _eval(col, intg, g, origin):
    payload = ("plain", "bytecode", "ast")[len(g) % 3]
    nt = False
    for stage in STAGES:
        scfg = _build(g, stage, payload)
        if scfg is None:
            col.count("not_evaluated_stage_raised")
            continue
        col.count("drawings")
        try:
            nt = check_drawing(scfg, _render_scfg(scfg), "scfg") or nt
            if payload == "ast":
                # the statements of the blocks are edited in place (what an ast.NodeTransformer pass of the caller does)
                # and the graph is drawn again: the labels show the statements as they now are
                for b in M.Flat(scfg).blocks.values():
                    for stmt in getattr(b, "tree", None) or ():
                        for node in ast.walk(stmt):
                            if isinstance(node, ast.Constant) and isinstance(node.value, int) and not isinstance(node.value, bool):
                                node.value += 1000
                            elif isinstance(node, ast.Name):
                                node.id = node.id + "_r"
                col.count("drawings")
                check_drawing(scfg, _render_scfg(scfg), "scfg")
        except M.Viol as v:
            col.fail(f"C17:{v.clause}", f"[{stage}/{payload}] {v.msg}", dict(graph=gg.graph_to_json(g), stage=stage, payload=payload), len(g))
    classes = gg.classify(intg)
    col.case((gg.gkey(g), payload), len(g), nt, sample=dict(graph=gg.graph_to_str(g), payload=payload, origin=origin), classes=classes + ["payload:" + payload, "origin:" + origin])


def _eval_byteflow(col, label, code):
    nt = False
    for stage in STAGES:
        if stage == "declared":
            continue
        try:
            flow = ByteFlow.from_bytecode(code)
            if stage != "none":
                M.apply_stage(flow.scfg, stage)
        except Exception as e:
            if not library_raised(e):
                raise
            col.count("byteflow_not_evaluated")
            continue
        col.count("drawings")
        try:
            try:
                r = ByteFlowRenderer()
                src = r.render_byteflow(flow).source
            except Exception as e:
                raise M.Viol(f"D-raise:{type(e).__name__}", f"ByteFlowRenderer raised {type(e).__name__}: {e}")
            bcmap = {i.offset: i for i in dis.get_instructions(code)}
            nt = check_drawing(flow.scfg, src, "byteflow", bcmap) or nt
        except M.Viol as v:
            col.fail(f"C17:bf:{v.clause}", f"[{stage}] {label}: {v.msg}", dict(function=label, stage=stage), len(flow.scfg.graph))
    col.case(("bf", label), code.co_code.__len__(), nt, sample=dict(function=label, renderer="ByteFlowRenderer"), classes=["byteflow"])


def _run_multiway(spec):
    from hypothesis import HealthCheck, Phase, given, seed as hseed, settings

    _, seed, shard, examples = spec
    col = Collector()

    @hseed(h64(("c17mw", seed, shard)))
    @settings(max_examples=examples, database=None, deadline=None, phases=[Phase.generate], suppress_health_check=list(HealthCheck))
    @given(g=gg.multiway_graphs())
    def t(g):
        scfg = M.mk_scfg(g)
        col.count("drawings")
        try:
            check_drawing(scfg, _render_scfg(scfg), "scfg")
        except M.Viol as v:
            col.fail(f"C17:mw:{v.clause}", f"[many-way flat graph] {v.msg}", dict(multiway=[[k, list(v_)] for k, v_ in g.items()]), len(g))
        deg = max(len(v_) for v_ in g.values())
        col.case(("mw", tuple(g.items())), len(g), deg >= 4, sample=dict(graph=gg.graph_to_str(g), max_out_degree=deg, origin="multiway"), classes=["origin:multiway"])

    t()
    return col.result()


def _run_deep(spec):
    """deeply nested graphs (loop in loop in loop ..., if in if in if ...) at every stage"""
    from vpbt.checks import c02

    col = Collector()
    f, n = {"nest": (c02._big_nest, spec[1]), "comb": (c02._big_comb, spec[1]), "exits": (c02._big_exits, spec[1]), "entries": (c02._big_entries, spec[1])}[spec[2]]
    intg = f(n)
    _eval(col, intg, gg.restyle(intg, "num"), "deep")
    return col.result()


def run(spec):
    if spec[0] == "multiway":
        return _run_multiway(spec)
    if spec[0] == "deep":
        return _run_deep(spec)
    if spec[0] == "byteflow":
        _, shard, nshards, limit = spec
        col = Collector()
        n = 0
        for label, code in bm.corpus_codes(shard, nshards):
            if n >= limit:
                break
            if not bm.eligible(code) or len(code.co_code) > 1200:
                continue
            n += 1
            _eval_byteflow(col, label, code)
        return col.result()
    return sweep.run(spec, _eval)


def plan(tier, seed):
    specs = sweep.plan(tier, seed, scale=0.5 if tier == "quick" else 0.35)
    if tier == "quick":
        specs += [("byteflow", s, 16, 25) for s in range(16)]
        specs += [("multiway", seed, s, 400) for s in range(8)] + [("deep", 40, "nest"), ("deep", 40, "comb"), ("deep", 9, "exits"), ("deep", 9, "entries")]
    else:
        specs += [("byteflow", s, 16, 10**9) for s in range(16)]
        specs += [("multiway", seed, s, 3000) for s in range(8)] + [("deep", 40, "nest"), ("deep", 40, "comb"), ("deep", 120, "nest"), ("deep", 120, "comb")]
    return specs


def replay(inp):
    if "function" in inp:
        for label, code in bm.corpus_codes():
            if label == inp["function"]:
                col = Collector()
                _eval_byteflow(col, label, code)
                return [(s, f["msg"]) for s, f in col.failures.items()]
        return []
    if "multiway" in inp:
        scfg = M.mk_scfg({k: tuple(v) for k, v in inp["multiway"]})
        try:
            check_drawing(scfg, _render_scfg(scfg), "scfg")
        except M.Viol as v:
            return [(f"C17:mw:{v.clause}", v.msg)]
        return []
    g = gg.graph_from_json(inp["graph"])
    scfg = _build(g, inp["stage"], inp["payload"])
    if scfg is None:
        return []
    try:
        check_drawing(scfg, _render_scfg(scfg), "scfg")
    except M.Viol as v:
        return [(f"C17:{v.clause}", v.msg)]
    return []


shrink = G.generic_shrink(replay)
