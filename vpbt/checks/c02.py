"""C02 - restructuring accepts every closed CFG: terminates, never raises."""
import signal
import sys

from vpbt import gen_graphs as gg, graph_checks as G, models as M, sweep
from vpbt.core import exc_sig

PID = "C02"
RULE = 'Cases: closed CFGs (<=2 ordered distinct successors, one entry, all blocks reachable and reaching an exit) from (a) exhaustive lexicographic enumeration of all labelled graphs with n<=4 blocks and a seed-offset slice (quick) / all (thorough) of n=5, canonical BFS-numbered forms of n=6,7 with name-style relabellings (thorough), (b) Hypothesis strategy closed_cfgs (modes uniform/local/motif/structured/dense, construction+repair, name styles num/perm/bytecode/alpha), (c) CFG shapes of standard-library functions computed by an own dis-based builder, (d) CFG shapes that the source front end builds for generated functions, (e) 16 coverage-guided libFuzzer campaigns (atheris; bytes decoded into block count, name style, arity and targets per block, then the same deterministic repair; origin fuzz); every case is run through the stage prefixes closed, loop, branch (and restructure() for even sizes). Distinct = canonical hash of the named input graph. Plus Hypothesis graphs up to 36 (quick) / 80 (thorough) blocks, plus large regular graphs (chain, if/else ladder, long loop body with two exits, row of early returns) with 255-300 blocks (to 1030 in the thorough tier), i.e. across size thresholds such as 256. Non-trivial = the input has a cycle or a block with two successors.'
ASSUME = []
LINE_BUDGET = 5_000_000
WATCHDOG_S = 30


class _Watchdog(BaseException):
    pass


class _Budget(BaseException):
    pass


def _alarm(signum, frame):
    raise _Watchdog()


def _run_stage(g, stage, payload):
    """returns None | ('raise', exc) | ('nonterm', lines)"""
    scfg = M.mk_scfg(g, payload)
    old = signal.signal(signal.SIGALRM, _alarm)
    signal.setitimer(signal.ITIMER_REAL, WATCHDOG_S + len(g) // 2)
    try:
        try:
            if len(g) >= 80:
                from vpbt.core import default_recursion_limit

                with default_recursion_limit():
                    M.apply_stage(scfg, stage)
            else:
                M.apply_stage(scfg, stage)
            return None
        finally:
            signal.setitimer(signal.ITIMER_REAL, 0)
            signal.signal(signal.SIGALRM, old)
    except _Watchdog:
        pass
    except Exception as e:
        return ("raise", e)
    # the watchdog is not a verdict: re-run under a deterministic line budget
    cnt = [0]
    # measured: the if/else ladder needs 5.4e6 traced lines at 129 blocks and 3.6e7 at 257 (about cubic); the budget
    # stays > 15x above that curve
    budget = max(LINE_BUDGET, 40 * len(g) ** 3)

    def tr(frame, ev, arg):
        if ev == "line":
            cnt[0] += 1
            if cnt[0] > budget:
                raise _Budget()
        return tr

    scfg = M.mk_scfg(g, payload)
    sys.settrace(tr)
    try:
        M.apply_stage(scfg, stage)
    except _Budget:
        return ("nonterm", cnt[0])
    except Exception as e:
        return ("raise", e)
    finally:
        sys.settrace(None)
    return None


def _eval(col, intg, g, origin):
    classes = gg.classify(intg)
    payload = ("plain", "bytecode")[len(g) % 2]
    from vpbt.core import h64

    # the two public ways through the pipeline, plus one of the histories (level-wise drivers, write/read between the
    # stages, restructure() after restructure_loop()) - none may raise
    for stage in ("branch", "restructure", ("levelwise", "reload", "reentrant")[h64(gg.gkey(g)) % 3]):
        if len(g) > 120 and stage not in ("branch", "restructure"):
            continue
        r = _run_stage(g, stage, payload)
        col.count("stage_evaluations")
        if r is None:
            continue
        if r[0] == "raise":
            e = r[1]
            col.fail(exc_sig("C02:raise", e), f"[{stage}] {type(e).__name__}: {e}", G.replay_obj(g, stage, payload), len(g))
        else:
            col.fail("C02:nonterm", f"[{stage}] no result after {r[1]} traced lines", G.replay_obj(g, stage, payload), len(g))
    col.case(gg.gkey(g), len(g), gg.nontrivial_shape(g), sample=dict(graph=gg.graph_to_str(g), blocks=len(g), origin=origin, classes=classes), classes=classes + ["origin:" + origin])


# sizes around the thresholds where an implementation detail may change behaviour (small-int cache at 256, ...)
def _big_chain(n):
    return {i: ((i + 1,) if i + 1 < n else ()) for i in range(n)}


def _big_ladder(n):
    g, i = {}, 0
    while i + 3 < n:
        g[i], g[i + 1], g[i + 2] = (i + 1, i + 2), (i + 3,), (i + 3,)
        i += 3
    for j in range(i, n):
        g[j] = (j + 1,) if j + 1 < n else ()
    return g


def _big_loop(n):
    g = {0: (1,)}
    for i in range(1, n - 2):
        g[i] = (i + 1,)
    g[n - 2] = (1, n - 1)
    g[n - 1] = ()
    g[n // 2] = (n // 2 + 1, n - 1)
    return g


def _big_returns(n):
    g = {}
    for i in range(0, n - 1, 2):
        g[i] = (i + 1, i + 2) if i + 2 < n else (i + 1,)
        g[i + 1] = ()
    g[n - 1] = ()
    return {k: tuple(t for t in v if t < n) for k, v in sorted(g.items())}


def _big_comb(n):
    """if nested in if nested in if ...: n // 2 levels deep"""
    d = max(2, n // 2)
    names = {}
    g = {}

    def nid(k):
        return names.setdefault(k, len(names))

    for i in range(d):
        g[nid(("c", i))] = None
    for i in range(d):
        g[nid(("c", i))] = (nid(("c", i + 1)), nid(("j", i)))
    g[nid(("c", d))] = (nid(("j", d - 1)),)
    for i in range(d - 1, 0, -1):
        g[nid(("j", i))] = (nid(("j", i - 1)),)
    g[nid(("j", 0))] = ()
    return dict(sorted(g.items()))


def _big_nest(n):
    """loop nested in loop nested in loop ...: n // 2 levels deep"""
    d = max(2, n // 2)
    names = {}

    def nid(k):
        return names.setdefault(k, len(names))

    g = {nid("e"): (nid(("h", 0)),)}
    for i in range(d):
        g[nid(("h", i))] = (nid(("h", i + 1)),) if i + 1 < d else (nid(("l", i)),)
    for i in range(d - 1, -1, -1):
        g[nid(("l", i))] = (nid(("h", i)), nid(("l", i - 1))) if i > 0 else (nid(("h", 0)), nid("x"))
    g[nid("x")] = ()
    return dict(sorted(g.items()))


def _big_exits(k):
    """one loop with k exiting blocks that leave to k DISTINCT blocks (k-way exit dispatch), each returning"""
    g = {0: (1,)}
    for i in range(1, k + 1):
        nxt = i + 1 if i < k else 1
        g[i] = (k + i, nxt) if i % 2 else (nxt, k + i)
    for i in range(1, k + 1):
        g[k + i] = ()
    return g


def _big_exits_joined(k):
    """a branch: one arm is a ring loop of k blocks each leaving to its own exit block, the other arm enters two of
    those exit blocks; the exit blocks flow into one another (i -> i+2) down to one return: a branch tail with k headers"""
    g = {0: (1, k + 1)}
    for i in range(1, k + 1):
        g[i] = (i + 1 if i < k else 1, k + 1 + i)
    g[k + 1] = (k + 2, k + 3)  # the other arm
    last = 2 * k + 2
    for i in range(1, k + 1):
        e = k + 1 + i
        g[e] = (min(e + 2, last),)
    g[last] = ()
    return g


def _big_entries(k):
    """a loop entered at k different headers (k-way head dispatch)"""
    g = {}
    # dispatch tree of two-way blocks to k loop blocks
    nxt = [k + 1]
    heads = list(range(1, k + 1))

    def tree(lo, hi):
        if hi - lo == 1:
            return heads[lo]
        me = nxt[0]
        nxt[0] += 1
        mid = (lo + hi) // 2
        g[me] = None
        a, b = tree(lo, mid), tree(mid, hi)
        g[me] = (a, b)
        return me

    root = tree(0, k)
    for i, h in enumerate(heads):
        g[h] = (heads[(i + 1) % k],) if i + 1 < k else (heads[0], nxt[0])
    g[nxt[0]] = ()
    # renumber: entry first
    order = [root] + sorted(x for x in g if x != root)
    ren = {o: i for i, o in enumerate(order)}
    return {ren[u]: tuple(ren[t] for t in g[u]) for u in order}


MANYWAY = [(_big_exits, k) for k in (5, 8, 9, 10, 13)] + [(_big_entries, k) for k in (5, 9, 12)] + [(_big_exits_joined, k) for k in (3, 5, 6, 9)]
BIG = [(f, n) for n in (255, 256, 257, 258, 300) for f in (_big_chain, _big_loop)] + [(_big_ladder, 257), (_big_returns, 257), (_big_returns, 300), (_big_comb, 120), (_big_nest, 80)] + MANYWAY
BIG_THOROUGH = BIG + [(_big_comb, 300), (_big_nest, 200), (_big_chain, 520), (_big_loop, 520), (_big_chain, 1030), (_big_loop, 1030), (_big_ladder, 300), (_big_returns, 520)]


def _run_big(spec):
    from vpbt.core import Collector

    col = Collector()
    f, n = (BIG_THOROUGH if spec[2] == "thorough" else BIG)[spec[1]]
    intg = f(n)
    assert gg.is_closed(intg), (f.__name__, n)
    col.count("origin_big")
    _eval(col, intg, gg.restyle(intg, "num"), "big")
    return col.result()


def replay(inp):
    g = gg.graph_from_json(inp["graph"])
    r = _run_stage(g, inp.get("stage", "branch"), inp.get("payload", "plain"))
    if r is None:
        return []
    if r[0] == "raise":
        return [(exc_sig("C02:raise", r[1]), f"{type(r[1]).__name__}: {r[1]}")]
    return [("C02:nonterm", f"no result after {r[1]} traced lines")]


shrink = G.generic_shrink(replay)


def plan(tier, seed):
    specs = sweep.plan(tier, seed, fuzz_mod=__name__)
    if tier == "quick":
        specs += [("hyp", seed + 7919, s, 40, 36) for s in range(16)]
        specs = [s_ for s_ in specs if s_[0] != "big"]
        specs = [("big", k, tier) for k in range(len(BIG))] + specs
    else:
        specs = [s_ for s_ in specs if s_[0] != "big"]
        specs += [("hyp", seed + 7919, s, 600, 80) for s in range(32)]
        specs = [("big", k, tier) for k in range(len(BIG_THOROUGH))] + specs
    return specs


def run(spec):
    if spec[0] == "big":
        return _run_big(spec)
    return sweep.run(spec, _eval)
