"""C02 - restructuring accepts every closed CFG: terminates, never raises."""
import signal
import sys

from vpbt import gen_graphs as gg, graph_checks as G, models as M, sweep
from vpbt.core import exc_sig

PID = "C02"
RULE = 'Cases: closed CFGs (<=2 ordered distinct successors, one entry, all blocks reachable and reaching an exit) from (a) exhaustive lexicographic enumeration of all labelled graphs with n<=4 blocks and a seed-offset slice (quick) / all (thorough) of n=5, canonical BFS-numbered forms of n=6,7 with name-style relabellings (thorough), (b) Hypothesis strategy closed_cfgs (modes uniform/local/motif/structured/dense, construction+repair, name styles num/perm/bytecode/alpha), (c) CFG shapes of standard-library functions computed by an own dis-based builder, (d) CFG shapes that the source front end builds for generated functions, (e) 16 coverage-guided libFuzzer campaigns (atheris; bytes decoded into block count, name style, arity and targets per block, then the same deterministic repair; origin fuzz); every case is run through the stage prefixes closed, loop, branch (and restructure() for even sizes). Distinct = canonical hash of the named input graph. Plus Hypothesis graphs up to 36 (quick) / 80 (thorough) blocks. Non-trivial = the input has a cycle or a block with two successors.'
ASSUME = []
LINE_BUDGET = 5_000_000
WATCHDOG_S = 30


class _Watchdog(BaseException):
    pass


class _Budget(BaseException):
    pass


def _alarm(signum, frame):
    raise _Watchdog()


def _run_stage(g, stage, payload):
    """returns None | ('raise', exc) | ('nonterm', lines)"""
    scfg = M.mk_scfg(g, payload)
    old = signal.signal(signal.SIGALRM, _alarm)
    signal.setitimer(signal.ITIMER_REAL, WATCHDOG_S)
    try:
        try:
            M.apply_stage(scfg, stage)
            return None
        finally:
            signal.setitimer(signal.ITIMER_REAL, 0)
            signal.signal(signal.SIGALRM, old)
    except _Watchdog:
        pass
    except Exception as e:
        return ("raise", e)
    # the watchdog is not a verdict: re-run under a deterministic line budget
    cnt = [0]

    def tr(frame, ev, arg):
        if ev == "line":
            cnt[0] += 1
            if cnt[0] > LINE_BUDGET:
                raise _Budget()
        return tr

    scfg = M.mk_scfg(g, payload)
    sys.settrace(tr)
    try:
        M.apply_stage(scfg, stage)
    except _Budget:
        return ("nonterm", cnt[0])
    except Exception as e:
        return ("raise", e)
    finally:
        sys.settrace(None)
    return None


def _eval(col, intg, g, origin):
    classes = gg.classify(intg)
    payload = ("plain", "bytecode")[len(g) % 2]
    for stage in ("branch", "restructure"):
        r = _run_stage(g, stage, payload)
        col.count("stage_evaluations")
        if r is None:
            continue
        if r[0] == "raise":
            e = r[1]
            col.fail(exc_sig("C02:raise", e), f"[{stage}] {type(e).__name__}: {e}", G.replay_obj(g, stage, payload), len(g))
        else:
            col.fail("C02:nonterm", f"[{stage}] no result after {r[1]} traced lines", G.replay_obj(g, stage, payload), len(g))
    col.case(gg.gkey(g), len(g), gg.nontrivial_shape(g), sample=dict(graph=gg.graph_to_str(g), blocks=len(g), origin=origin, classes=classes), classes=classes + ["origin:" + origin])


def replay(inp):
    g = gg.graph_from_json(inp["graph"])
    r = _run_stage(g, inp.get("stage", "branch"), inp.get("payload", "plain"))
    if r is None:
        return []
    if r[0] == "raise":
        return [(exc_sig("C02:raise", r[1]), f"{type(r[1]).__name__}: {r[1]}")]
    return [("C02:nonterm", f"no result after {r[1]} traced lines")]


shrink = G.generic_shrink(replay)


def plan(tier, seed):
    specs = sweep.plan(tier, seed, fuzz_mod=__name__)
    if tier == "quick":
        specs += [("hyp", seed + 7919, s, 40, 36) for s in range(16)]
    else:
        specs += [("hyp", seed + 7919, s, 600, 80) for s in range(32)]
    return specs


def run(spec):
    return sweep.run(spec, _eval)
