"""C08 - the graph built from source means what the source means."""

from __future__ import annotations

import ast

from numba_scfg.core.datastructures.ast_transforms import AST2SCFGTransformer

from vpbt import ast_checks as A, gen_programs as gp, prog_check as P, pyexec as X
from vpbt.core import lib_frame

PID = "C08"
RULE = (
    "Cases: functions drawn by gen_programs.programs (as C07; and/or operands, chained comparisons, arithmetic and call arguments carry tape reads and "
    "logging calls). For prune=False and prune=True the front-end graph (transform_to_ASTCFG) is compiled by an own CFG interpreter (dispatch loop over "
    "block names: run the statements, with two successors branch on the truth of the last expression, stop at a return) and compared with the original "
    "function on 2 argument tuples x path-exhaustive decision tapes: same outcome and same external-call trace. Census by object identity: with "
    "prune=False every simple statement and every if/while test of the parsed function lies in exactly one block; with prune=True a missing statement is "
    "pass/break/continue or unreachable in the unpruned graph (own search), no block is empty, blocks have <= 2 targets and two-way blocks end in an "
    "expression. Further legs: the same grammar driven coverage-guided by libFuzzer (atheris) through Hypothesis' fuzz_one_input; fixed template families (loops with 3-13 exits, 3-13-arm elif chains, 3-13-operand and/or chains, 3-7-deep while nests, while-True idioms) and a slice (quick) / all (thorough) of an exhaustive family of 3768 loops whose body is an if/elif/else chain over every combination of pass / continue / break / return / statement arms with every kind of tail. Both entry points are used (source text, node list); after the comparison the front-end graph is converted, restructured and regenerated and must still be what it was. Non-trivial = program has an and/or with a calling non-first operand, or a loop with else and break. Distinct = hash of the source."
)
ASSUME = [
    "CPython is the reference semantics; arguments from a finite pool; tapes up to the depth bound",
    "a mismatch in a probe shard whose program carries the probed construct is attributed to that recorded finding",
]

SIMPLE = (ast.Assign, ast.AugAssign, ast.Expr, ast.Return, ast.Pass, ast.Break, ast.Continue)


def _walk_stmts(stmts, out_simple, out_tests):
    for s in stmts:
        if isinstance(s, SIMPLE):
            out_simple.append(s)
        elif isinstance(s, (ast.If, ast.While)):
            out_tests.append(s)
            _walk_stmts(s.body, out_simple, out_tests)
            _walk_stmts(s.orelse, out_simple, out_tests)
        elif isinstance(s, ast.For):
            _walk_stmts(s.body, out_simple, out_tests)
            _walk_stmts(s.orelse, out_simple, out_tests)


def _frontend(src, prune):
    # both entry points: the source text itself (the transformer parses it; the census then walks the tree the
    # transformer holds) and a list of AST nodes parsed here
    if len(src) % 2:
        t = AST2SCFGTransformer(src, prune=prune)
        tree = t.tree
    else:
        tree = ast.parse(src).body
        t = AST2SCFGTransformer(tree, prune=prune)
    fn = tree[0]
    simple, tests = [], []
    _walk_stmts(fn.body, simple, tests)
    plain_tests = [(n, n.test) for n in tests if not isinstance(n.test, ast.BoolOp)]
    cfg = t.transform_to_ASTCFG()
    blocks = {k: (list(b.instructions), list(b.jump_targets)) for k, b in cfg.items()}
    _frontend.last = (cfg, fn)
    return blocks, simple, plain_tests


def _consumed(cfg, fn):
    """The graph built from source stays what it is when it is used: converted to an SCFG, restructured and turned
    back into Python (the blocks' statement lists are shared with the SCFG's AST blocks).  -> None | message"""
    from numba_scfg.core.datastructures.ast_transforms import SCFG2ASTTransformer

    from vpbt.core import library_raised

    def snap():
        return {k: ([ast.dump(i) for i in b.instructions], list(b.jump_targets)) for k, b in cfg.items()}

    before = snap()
    try:
        scfg = cfg.to_SCFG()
        scfg.restructure()
        SCFG2ASTTransformer().transform(original=fn, scfg=scfg)
    except Exception as e:
        if not library_raised(e):
            raise
    after = snap()
    if after != before:
        k = next(k for k in before if after.get(k) != before[k])
        return f"block {k} of the front-end graph changed while the graph was converted / restructured / regenerated: {before[k][0][-1:]} -> {after.get(k, [None])[0][-1:]}"
    return None


def _census(blocks, simple, plain_tests, prune, unpruned=None):
    where = {}
    for k, (ins, jts) in blocks.items():
        if len(jts) > 2:
            return f"block {k} has {len(jts)} targets"
        if len(set(jts)) != len(jts):
            return f"block {k} has duplicate targets {jts}"
        for t in jts:
            if t not in blocks:
                return f"block {k} targets {t} which does not exist"
        if len(jts) == 2 and not (ins and isinstance(ins[-1], (ast.expr, ast.Expr))):
            return f"two-way block {k} does not end in an expression"
        if prune and not ins:
            return f"block {k} is empty after pruning"
        for x in ins:
            where.setdefault(id(x), []).append(k)
    for i, s in enumerate(simple):
        n = len(where.get(id(s), ()))
        if n > 1:
            return f"statement #{i} '{ast.unparse(s)}' occurs {n} times ({where[id(s)]})"
        if n == 0:
            if not prune:
                return f"statement #{i} '{ast.unparse(s)}' lies in no block of the unpruned graph"
            if isinstance(s, (ast.Pass, ast.Break, ast.Continue)):
                continue
            # must be unreachable in the unpruned graph
            ublocks, usimple, reach = unpruned
            home = [k for k, (ins, _) in ublocks.items() if any(x is usimple[i] for x in ins)]
            if not home:
                return f"statement #{i} '{ast.unparse(s)}' lies in no block (pruned or not)"
            if home[0] in reach:
                return f"reachable statement #{i} '{ast.unparse(s)}' was pruned"
    for n, test in plain_tests:
        ks = where.get(id(test), [])
        if len(ks) > 1:
            return f"test '{ast.unparse(test)}' occurs {len(ks)} times"
        if len(ks) == 0 and not prune:
            return f"test '{ast.unparse(test)}' lies in no block"
    return None


def _reach(blocks, entry="0"):
    seen = {entry}
    todo = [entry]
    while todo:
        k = todo.pop()
        for t in blocks[k][1]:
            if t in blocks and t not in seen:
                seen.add(t)
                todo.append(t)
    return seen


def check_program(src, arg_idx, depth, max_runs, recorded):
    feats = gp.features(src)
    args = [A.ARG_POOL[i % len(A.ARG_POOL)] for i in arg_idx]
    stats = dict(runs=0, complete=0, inconclusive=0)
    unpruned = None
    for prune in (False, True):
        try:
            blocks, simple, plain_tests = _frontend(src, prune)
        except NotImplementedError as e:
            return "refused", None, str(e), stats
        except Exception as e:
            return "fail", f"C08:internal:{type(e).__name__}@{lib_frame(e)}", f"front end (prune={prune}) raised {type(e).__name__}: {e}", stats
        tg = {t for _, jts in blocks.values() for t in jts}
        heads = [k for k in blocks if k not in tg]
        if prune and len(heads) != 1:
            return "fail", "C08:census", f"prune={prune}: {len(heads)} blocks without predecessor: {heads[:4]}", stats
        entry = heads[0] if prune else "0"
        if entry not in blocks:
            return "fail", "C08:census", f"prune={prune}: entry block missing", stats
        if not prune:
            unpruned = (blocks, simple, _reach(blocks))
        msg = _census(blocks, simple, plain_tests, prune, unpruned)
        if msg:
            return "fail", "C08:census", f"prune={prune}: {msg}", stats
        try:
            fac, isrc = X.factory_from_cfg(blocks, entry)
        except X.CFGShape as e:
            return "fail", "C08:shape", f"prune={prune}: {e}", stats
        except SyntaxError as e:
            return "fail", "C08:shape", f"prune={prune}: interpreter source does not compile: {e}", stats
        st, mm = A.compare_behaviour(X.factory_from_source(src, "f"), fac, args, depth, max_runs)
        for k in stats:
            stats[k] += st[k]
        if mm:
            sig = P.mismatch_sig(PID, feats, recorded)
            if prune and A.pruned_local_symptom(src, isrc, mm):
                sig = "C08:mismatch:pruned_local"
            return "fail", sig, f"prune={prune}: behaviour of the graph differs: {mm}", stats
        if prune:
            msg = _consumed(*_frontend.last)
            if msg:
                return "fail", "C08:consumed", msg, stats
    if stats["complete"] == 0:
        return "inconclusive", None, "", stats
    return "ok", None, "", stats


def _nontrivial(status, feats, stats):
    return status == "ok" and ("boolop_effect_operand" in feats or "loop_else_break" in feats)


run, _plan, replay, shrink = P.make(PID, check_program, _nontrivial)
PROG_BUILD = run.build


def plan(tier, seed):
    # the dispatch-loop interpreter is ~4x slower than a regenerated function
    return _plan(tier, seed, quick=(90, 8, 32, 30, 2), thorough=(500, 10, 96, 200, 3), fuzz_mod=__name__)
