"""C12 - results are deterministic across processes and hash seeds."""

from __future__ import annotations

import json
import os
import subprocess
import sys

from hypothesis import HealthCheck, Phase, given, seed as hseed, settings, strategies as st

from vpbt import bytecode_model as bm, gen_graphs as gg, gen_programs as gp
from vpbt.core import REPO, VERIF, Collector, h64

PID = "C12"
RULE = (
    "Cases: inputs are generated once by the parent (closed CFGs from closed_cfgs(max_n=24) with multi-character name styles so that set iteration order "
    "depends on the hash seed; generated source functions; standard-library functions by label) and written to a file; for every input, separate child "
    "processes started with different PYTHONHASHSEED values (6 in the quick tier, 24 in the thorough tier) each compute an insertion-order- and "
    "name-sensitive canonical dump of every stage prefix (closed, loop, branch) together with the name-generator state, of the front-end graphs (source and "
    "bytecode) and of the regenerated source text. Oracle (metamorphic): all children produce byte-identical dumps per input. History leg: one more child with the first hash seed processes the inputs in the opposite order (one regenerating transformer object per process): the result for an input must not depend on what the process computed before. Name style zpad (numerals differing only in leading zeros) is among the styles. Non-trivial = the final "
    "result contains >= 2 synthetic blocks. Distinct = hash of the input."
)
ASSUME = ["a finite set of hash seeds; a dependence that needs a specific collision pattern can be missed"]

QUICK_SEEDS = [0, 1, 2, 3, 17, 4242]


def seeds_for(tier, seed):
    if tier == "quick":
        return QUICK_SEEDS
    return QUICK_SEEDS + [(h64(("c12seed", seed, i)) % 4294967295) for i in range(18)]


def _inputs(seed, shard, n_graphs, n_src, n_bc):
    out = []

    @hseed(h64(("c12g", seed, shard)))
    @settings(max_examples=n_graphs, database=None, deadline=None, phases=[Phase.generate], suppress_health_check=list(HealthCheck))
    @given(g=gg.closed_cfgs(max_n=24, min_n=5), style=st.sampled_from(["bytecode", "alpha", "perm", "zpad"]), pk=st.integers(0, 2**20))
    def tg(g, style, pk):
        import random

        p = list(range(len(g)))
        random.Random(pk).shuffle(p)
        named = gg.restyle(g, style, p if style != "bytecode" else None)
        out.append(dict(kind="graph", graph=gg.graph_to_json(named), payload=("plain", "bytecode")[len(g) % 2], classes=gg.classify(g)))

    tg()

    @hseed(h64(("c12s", seed, shard)))
    @settings(max_examples=n_src, database=None, deadline=None, phases=[Phase.generate], suppress_health_check=list(HealthCheck))
    @given(src=gp.programs())
    def ts(src):
        out.append(dict(kind="source", src=src))

    if n_src:
        ts()
    if n_bc:
        k = 0
        for label, code in bm.corpus_codes(shard % 16, 16):
            if bm.eligible(code) and 40 < len(code.co_code) < 600:
                out.append(dict(kind="bytecode", function=label))
                k += 1
                if k >= n_bc:
                    break
    return out


def _child(path, hashseed, verbose=False, reverse=False):
    env = dict(os.environ, PYTHONHASHSEED=str(hashseed), PYTHONPATH=f"{REPO}:{VERIF}", PYTHONDONTWRITEBYTECODE="1")
    p = subprocess.run([sys.executable, "-m", "vpbt.c12_child", str(path)] + (["reverse"] if reverse else []), capture_output=True, text=True, env=env, cwd=str(VERIF), timeout=3000)
    if p.returncode != 0:
        raise RuntimeError(f"C12 child (hash seed {hashseed}) failed: {p.stderr[-1500:]}")
    return json.loads(p.stdout.strip().splitlines()[-1])


def compare(inputs, seeds, tag):
    work = VERIF / ".work"
    work.mkdir(exist_ok=True)
    path = work / f"c12_{tag}_{os.getpid()}.json"
    path.write_text(json.dumps(inputs))
    results = {s: _child(path, s) for s in seeds}
    fails = []
    base = results[seeds[0]]
    for i, inp in enumerate(inputs):
        for s in seeds[1:]:
            if results[s][i][0] != base[i][0]:
                fails.append((i, seeds[0], s))
                break
    # same hash seed, the inputs processed in the opposite order: the result for an input must not depend on what
    # the process computed before it (module-level caches, counters shared between graphs)
    hist = []
    if len(inputs) > 1:
        rev = _child(path, seeds[0], reverse=True)
        hist = [i for i in range(len(inputs)) if rev[i][0] != base[i][0]]
    return base, fails, hist


def _history_witness(inputs, i, seed0, tag):
    """smallest [x, input] whose second result differs from the input processed alone (else the whole suffix)."""
    work = VERIF / ".work"
    path = work / f"c12_hist_{tag}_{os.getpid()}.json"
    strip = lambda d: {k: v for k, v in d.items() if k != "classes"}
    path.write_text(json.dumps([inputs[i]]))
    alone = _child(path, seed0)[0][0]
    for j in range(len(inputs) - 1, i, -1):
        path.write_text(json.dumps([inputs[j], inputs[i]]))
        if _child(path, seed0)[1][0] != alone:
            return [strip(inputs[j]), strip(inputs[i])]
    return [strip(x) for x in inputs[i:][::-1]]


def _explain(inp, s0, s1):
    work = VERIF / ".work"
    path = work / f"c12_explain_{os.getpid()}.json"
    path.write_text(json.dumps([dict(inp, verbose=True)]))
    from vpbt import canon

    a = _child(path, s0)[0][2]
    b = _child(path, s1)[0][2]
    return canon.first_diff(a, b) or "digests differ"


def run(spec):
    _, seed, shard, n_graphs, n_src, n_bc, seeds = spec
    col = Collector()
    inputs = _inputs(seed, shard, n_graphs, n_src, n_bc)
    base, fails, hist = compare(inputs, seeds, f"{seed}_{shard}")
    failing = {i: (a, b) for i, a, b in fails}
    col.count("history_comparisons", len(inputs) if len(inputs) > 1 else 0)
    for i in hist[:1]:
        w = _history_witness(inputs, i, seeds[0], f"{seed}_{shard}")
        col.fail(f"C12:H-{inputs[i]['kind']}", f"the result for an input depends on what the same process computed before it (inputs processed in the opposite order, same hash seed); {len(hist)} inputs affected", dict(history=w, seeds=[seeds[0]]), len(json.dumps(w)))
    for i, inp in enumerate(inputs):
        key = inp.get("graph") or inp.get("src") or inp.get("function")
        if i in failing:
            a, b = failing[i]
            msg = f"PYTHONHASHSEED={a} and {b} give different results: {_explain(inp, a, b)}"
            col.fail(f"C12:D-{inp['kind']}", msg, dict(input={k: v for k, v in inp.items() if k != 'classes'}, seeds=[a, b]), len(json.dumps(key)))
        if len(base[i]) > 3 and base[i][3]:
            col.count("not_evaluated_pipeline_raised", 2 if inp["kind"] != "graph" else base[i][3])
        sample = dict(kind=inp["kind"], input=(gg.graph_to_str(gg.graph_from_json(inp["graph"])) if inp["kind"] == "graph" else key), hash_seeds=len(seeds))
        col.case((inp["kind"], json.dumps(key)), len(json.dumps(key)), base[i][1] >= 2, sample=sample, classes=[inp["kind"]] + inp.get("classes", []))
    col.count("child_processes", len(seeds))
    col.count("dump_comparisons", len(inputs) * (len(seeds) - 1))
    return col.result()


def plan(tier, seed):
    seeds = seeds_for(tier, seed)
    if tier == "quick":
        return [("d", seed, s, 40, 10, 6, seeds) for s in range(16)]
    return [("d", seed, s, 250, 60, 30, seeds) for s in range(16)]


def replay(inp):
    seeds = inp.get("seeds", QUICK_SEEDS)
    if "history" in inp:
        h = inp["history"]
        work = VERIF / ".work"
        work.mkdir(exist_ok=True)
        path = work / f"c12_histreplay_{os.getpid()}.json"
        path.write_text(json.dumps([h[-1]]))
        alone = _child(path, seeds[0])[0][0]
        path.write_text(json.dumps(h))
        if _child(path, seeds[0])[-1][0] != alone:
            return [(f"C12:H-{h[-1]['kind']}", "the result for an input depends on what the same process computed before it")]
        return []
    base, fails, _ = compare([inp["input"]], list(seeds) + [s for s in QUICK_SEEDS if s not in seeds], "replay")
    if fails:
        i, a, b = fails[0]
        return [(f"C12:D-{inp['input']['kind']}", f"PYTHONHASHSEED={a} and {b} give different results")]
    return []
