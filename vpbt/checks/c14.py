"""C14 - graph edit primitives reroute exactly the requested arcs.

Hypothesis rule-based state machine over the public edit primitives, run side
by side with the model of vpbt.edit_model (M5)."""

from __future__ import annotations

from hypothesis import HealthCheck, Phase, seed as hseed, settings, strategies as st
from hypothesis.stateful import RuleBasedStateMachine, initialize, precondition, rule, run_state_machine_as_test

from vpbt import edit_model as E, gen_graphs as gg, models as M
from vpbt.core import Collector, h64

PID = "C14"
RULE = (
    "Cases: histories drawn by a Hypothesis RuleBasedStateMachine. Initial state: a closed CFG from closed_cfgs(max_n=9), flat, flat with typed blocks (some blocks already synthetic tails / exits / fills / branching blocks with value tables, as a dict or YAML input may spell them), after "
    "join_returns+restructure_loop or after the full pipeline (so that top-level predecessors include regions - also regions whose exiting block is again a region - and branching synthetic blocks). Rules: insert_block and its "
    "four typed wrappers with drawn predecessors P (1-3 top-level blocks) and successors S (non-empty subset of P's successors; S=[] only with exit "
    "blocks as predecessors), insert_block_and_control_blocks, join_returns, join_tails_and_exits (documented cardinalities), and a rule that switches the (sub)graph the operations act on to any region's sub-graph (successors are then drawn inside that level). After every step the real "
    "top-level graph is compared with the arc-level model (names, classes, ordered successors, back edges, value tables), the hierarchy validator and "
    "table validator of C04/C06 run, and for histories that preserve paths by construction the product walk of C01 runs against the initial graph. "
    "Non-trivial = the history contains an insertion whose predecessor is a region or a branching synthetic block, or has >= 3 operations. "
    "Distinct = hash of the operation list."
)
ASSUME = [
    "S = [] is generated with exit blocks as predecessors only (the one caller, join_returns) and, like join_returns, only on the top-level graph (inside a region it would change which block is the exiting one); S is drawn from the successors of P that lie in the same (sub)graph (callers' domain)",
    "plain insert_block merges two arcs of one predecessor into one (documented): only the arc-level oracle applies then, not path preservation",
]


def _mk_machine(col, max_n, raise_sig=None):
    class Machine(RuleBasedStateMachine):
        def __init__(self):
            super().__init__()
            self.ex = E.Exec()
            self.ops = []
            self.dead = False
            self.done = False

        def _apply(self, op):
            self.ops.append(op)
            try:
                self.ex.apply(op)
            except M.Viol as v:
                self.dead = True
                sig = f"C14:{v.clause}"
                col.fail(sig, v.msg, dict(ops=list(self.ops)), len(self.ops))
                if raise_sig is not None and sig == raise_sig:
                    raise AssertionError(sig)

        @initialize(g=gg.closed_cfgs(max_n=max_n, min_n=3), mw=gg.multiway_graphs(max_n=8, max_deg=4), pre=st.sampled_from(["flat", "loop", "loop", "branch", "typed", "typed", "mtyped"]), style=st.sampled_from(["num", "bytecode"]))
        def init(self, g, mw, pre, style):
            if pre == "mtyped":
                # a flat graph with many-way blocks, all typed (synthetic exits with several targets, branching blocks with tables)
                self._apply(["init", gg.graph_to_json(mw), "typed"])
            else:
                self._apply(["init", gg.graph_to_json(gg.restyle(g, style)), pre])

        def _names(self):
            return sorted(self.ex.real.graph)

        @precondition(lambda self: not self.dead)
        @rule(data=st.data(), kind=st.sampled_from(["Exit", "Tail", "Return", "Fill", "raw"]))
        def insert(self, data, kind):
            top = self.ex.top()
            names = sorted(top)
            P = data.draw(st.lists(st.sampled_from(names), min_size=1, max_size=3, unique=True), label="P")
            cand = []
            for p in P:
                for t in top[p]["jt"]:
                    if t not in top[p]["be"] and t not in cand and t in top:
                        cand.append(t)
            if cand:
                S = data.draw(st.lists(st.sampled_from(cand), min_size=1, max_size=3, unique=True), label="S")
            else:
                S = []  # all predecessors are exits
                if any(top[p]["jt"] for p in P) or self.ex.cur is not self.ex.real:
                    return  # closing a graph is a top-level operation
            self._apply(["insert", kind, P, S])

        @precondition(lambda self: not self.dead)
        @rule(data=st.data())
        def ctrl(self, data):
            top = self.ex.top()
            names = sorted(top)
            P = data.draw(st.lists(st.sampled_from(names), min_size=1, max_size=3, unique=True), label="P")
            cand = []
            for p in P:
                for t in top[p]["jt"]:
                    if t not in top[p]["be"] and t not in cand and t in top:
                        cand.append(t)
            if not cand:
                return
            S = data.draw(st.lists(st.sampled_from(cand), min_size=1, max_size=3, unique=True), label="S")
            self._apply(["ctrl", P, S])

        @precondition(lambda self: not self.dead)
        @rule(data=st.data())
        def level(self, data):
            flat = M.Flat(self.ex.real)
            names = [None] + sorted(flat.regions)
            self._apply(["level", data.draw(st.sampled_from(names), label="level")])

        @precondition(lambda self: not self.dead)
        @rule()
        def join_returns(self):
            # also inside a region's sub-graph: its exiting block jumps out of the sub-graph, which is not "no successor"
            self._apply(["join_returns"])

        @precondition(lambda self: not self.dead)
        @rule(data=st.data())
        def jte(self, data):
            top = self.ex.top()
            names = [k for k in sorted(top) if top[k]["jt"]]
            if not names:
                return
            tails = data.draw(st.lists(st.sampled_from(names), min_size=1, max_size=3, unique=True), label="tails")
            cand = []
            for p in tails:
                for t in top[p]["jt"]:
                    if t not in top[p]["be"] and t not in cand and t in top:
                        cand.append(t)
            if not cand:
                return
            mx = 2 if len(tails) == 1 else 3
            exits = data.draw(st.lists(st.sampled_from(cand), min_size=1, max_size=mx, unique=True), label="exits")
            self._apply(["jte", tails, exits])

        @precondition(lambda self: not self.dead)
        @rule(data=st.data())
        def jte_preds(self, data):
            # the natural use: join (some of) the blocks that jump to one exit block - they may also jump to one another
            top = self.ex.top()
            preds = {}
            for k in sorted(top):
                for t in top[k]["jt"]:
                    if t not in top[k]["be"] and t in top and t != k:
                        preds.setdefault(t, []).append(k)
            cands = sorted(e for e, ps in preds.items() if len(set(ps)) >= 2)
            if not cands:
                return
            e = data.draw(st.sampled_from(cands), label="exit")
            ps = sorted(set(preds[e]))
            tails = data.draw(st.lists(st.sampled_from(ps), min_size=2, max_size=min(4, len(ps)), unique=True), label="tails")
            self._apply(["jte", tails, [e]])

        @precondition(lambda self: not self.dead)
        @rule(data=st.data())
        def jte_like(self, data):
            # exits chosen as the whole successor tuple of an existing block (what that block already joins), tails among
            # the blocks that jump to one of them
            top = self.ex.top()
            ys = [k for k in sorted(top) if 1 <= len(top[k]["jt"]) <= 3 and not top[k]["be"] and all(t in top for t in top[k]["jt"]) and len(set(top[k]["jt"])) == len(top[k]["jt"])]
            if not ys:
                return
            y = data.draw(st.sampled_from(ys), label="like")
            exits = list(top[y]["jt"])
            ps = sorted(k for k in top if k != y and any(t in exits and t not in top[k]["be"] for t in top[k]["jt"]))
            if not ps:
                return
            mx = 1 if len(exits) >= 3 else 3
            tails = data.draw(st.lists(st.sampled_from(ps), min_size=1, max_size=min(mx, len(ps)), unique=True), label="tails")
            if len(tails) == 1 and len(exits) == 3:
                return  # documented as unreachable
            self._apply(["jte", tails, exits])

        @precondition(lambda self: self.dead)
        @rule()
        def noop(self):
            pass

        def teardown(self):
            if self.ops and not self.done:
                self.done = True
                fl = self.ex.flags
                nt = bool(fl & {"region_pred", "branching_pred"}) or len(self.ops) >= 4
                classes = sorted(fl) + [f"ops={min(len(self.ops) - 1, 8)}", "init:" + self.ops[0][2]]
                col.case(self.ops, len(self.ops), nt, sample=dict(ops=self.ops, flags=sorted(fl)), classes=classes)
                col.count("operations", len(self.ops) - 1)

    return Machine


def run(spec):
    _, seed, shard, examples, steps, max_n = spec
    col = Collector()
    Mach = hseed(h64(("c14", seed, shard)))(_mk_machine(col, max_n))
    run_state_machine_as_test(
        Mach,
        settings=settings(max_examples=examples, stateful_step_count=steps, deadline=None, database=None, phases=[Phase.generate], suppress_health_check=list(HealthCheck)),
    )
    return col.result()


def plan(tier, seed):
    if tier == "quick":
        return [("sm", seed, s, 400, 8, 9) for s in range(16)]
    return [("sm", seed, s, 1500, 10, 14) for s in range(32)]


def replay(inp):
    ex, v = E.run_history(inp["ops"])
    return [(f"C14:{v.clause}", v.msg)] if v else []


def shrink(fail):
    """ddmin over the operation list (keeps the init op)."""
    ops = list(fail["replay"]["ops"])
    sig = fail["sig"]

    def fails(o):
        try:
            r = replay(dict(ops=o))
        except Exception:
            return False
        return any(s == sig for s, _ in r)

    changed = True
    while changed and len(ops) > 2:
        changed = False
        for i in range(1, len(ops)):
            cand = ops[:i] + ops[i + 1 :]
            if fails(cand):
                ops = cand
                changed = True
                break
    if len(ops) < len(fail["replay"]["ops"]):
        r = replay(dict(ops=ops))
        fail = dict(fail, replay=dict(ops=ops), msg=next(m for s, m in r if s == sig), size=len(ops))
    return fail
