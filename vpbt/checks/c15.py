"""C15 - dictionary and YAML serialisation round-trips every graph."""

from __future__ import annotations

from numba_scfg.core.datastructures.basic_block import RegionBlock, SyntheticBranch
from numba_scfg.core.datastructures.scfg import SCFG

from vpbt import canon, gen_graphs as gg, graph_checks as G, models as M, sweep
from vpbt.core import lib_frame, library_raised

PID = "C15"
RULE = (
    "Cases: the shared closed-CFG sweep (enumerated n<=5 slice, Hypothesis graphs incl. name styles whose string order differs from numeric order, corpus "
    "shapes) with plain and bytecode-range payloads at the stage prefixes none/closed/loop/branch; plus the graphs the bytecode front end builds for standard-library functions (real offset ranges, generator-made names) at the same stages. For each: to_dict and to_yaml must not raise; from_dict / "
    "from_yaml of the result must give a hierarchy equal to the original under an own canonical dump (types, payload fields, ordered successors, back "
    "edges, value tables, assignments, nesting, kind, header, exiting, parent; block insertion order is not compared); plus arbitrary flat block graphs as a caller may build them (duplicate targets, self loops, several heads, caller-declared back edges); to_dict of the re-read graph equals "
    "the first dictionary and to_yaml of the re-read graph equals the first text (write-read-write-read); the region-by-region walk of C01 still succeeds on "
    "the re-read graph (successor order is checked semantically). Further legs: writing must not change the graph and writing twice gives the same result; the re-read graph is restructured further, written and read again; deeply nested graphs (to 150 levels) and many-way loops with every library call under the default recursion limit. Non-trivial = the graph contains a region, a branching synthetic block and a two-way "
    "block whose successors are not in sorted order. Distinct = hash of (input, payload)."
)
ASSUME = ["AST-payload graphs are outside the domain (the block-type registry has no AST entry)", "block names are those the front ends and the name generator produce"]

STAGES = ("none", "closed", "loop", "branch")


def roundtrip(g, scfg, semantic=True, default_limit=False):
    """raises M.Viol"""
    if default_limit:
        # every library call of the round trip under the interpreter's default recursion limit
        from vpbt.core import default_recursion_limit

        class _L:
            def __init__(self, o):
                self._o = o

            def __getattr__(self, k):
                f = getattr(self._o, k)

                def call(*a, **kw):
                    with default_recursion_limit():
                        return f(*a, **kw)

                return call

        return _roundtrip(g, scfg, semantic, _L)
    return _roundtrip(g, scfg, semantic, lambda o: o)


def _roundtrip(g, scfg, semantic, W):
    ref = canon.dump(scfg, ordered=False)
    try:
        d = W(scfg).to_dict()
    except Exception as e:
        raise M.Viol(f"S-to_dict-raise:{type(e).__name__}@{lib_frame(e)}", f"to_dict raised {type(e).__name__}: {e}")
    try:
        s2, _ = W(SCFG).from_dict(d)
    except Exception as e:
        raise M.Viol(f"S-from_dict-raise:{type(e).__name__}@{lib_frame(e)}", f"from_dict(to_dict(g)) raised {type(e).__name__}: {e}")
    diff = canon.first_diff(ref, canon.dump(s2, ordered=False))
    if diff:
        raise M.Viol("S-dict-roundtrip", f"graph re-read from its dictionary differs: {diff}")
    try:
        d2 = W(s2).to_dict()
    except Exception as e:
        raise M.Viol(f"S-to_dict-raise:{type(e).__name__}@{lib_frame(e)}", f"to_dict of the re-read graph raised {type(e).__name__}: {e}")
    if d2 != d:
        raise M.Viol("S-dict-stable", f"to_dict(from_dict(d)) != d: {canon.first_diff(d, d2)}")
    try:
        y = W(scfg).to_yaml()
    except Exception as e:
        raise M.Viol(f"S-to_yaml-raise:{type(e).__name__}@{lib_frame(e)}", f"to_yaml raised {type(e).__name__}: {e}")
    try:
        s3, _ = W(SCFG).from_yaml(y)
    except Exception as e:
        raise M.Viol(f"S-from_yaml-raise:{type(e).__name__}@{lib_frame(e)}", f"from_yaml(to_yaml(g)) raised {type(e).__name__}: {e}")
    diff = canon.first_diff(ref, canon.dump(s3, ordered=False))
    if diff:
        raise M.Viol("S-yaml-roundtrip", f"graph re-read from its YAML differs: {diff}")
    try:
        y2 = W(s3).to_yaml()
    except Exception as e:
        raise M.Viol(f"S-to_yaml-raise:{type(e).__name__}@{lib_frame(e)}", f"to_yaml of the re-read graph raised {type(e).__name__}: {e}")
    if y2 != y:
        raise M.Viol("S-yaml-stable", "to_yaml(from_yaml(y)) != y")
    if canon.dump(scfg, ordered=False) != ref:
        raise M.Viol("S-mutates", "writing the graph (to_dict / to_yaml) changed the graph")
    try:
        if scfg.to_dict() != d or scfg.to_yaml() != y:
            raise M.Viol("S-again", "writing the same graph a second time gives a different dictionary / YAML text")
    except M.Viol:
        raise
    except Exception as e:
        raise M.Viol(f"S-to_dict-raise:{type(e).__name__}@{lib_frame(e)}", f"second write raised {type(e).__name__}: {e}")
    for lab, s in (("dict", s2), ("yaml", s3)) if semantic else ():
        try:
            M.walk_regions(g, s)
            M.check_hierarchy(s)
        except M.Viol as v:
            raise M.Viol(f"S-{lab}-semantic:{v.clause}", f"graph re-read from {lab} is no longer walkable/consistent: {v.msg}")
        except M.Inconclusive:
            pass
    return s2, s3


def _eval(col, intg, g, origin):
    payload = ("plain", "bytecode")[len(g) % 2]
    nt = False
    for stage in STAGES:
        scfg = M.mk_scfg(g, payload)
        try:
            if stage != "none":
                M.apply_stage(scfg, stage)
        except Exception as e:
            if not library_raised(e):
                raise
            col.count("not_evaluated_stage_raised")
            continue
        col.count("roundtrips")
        try:
            reread = roundtrip(g, scfg)
            if stage in ("closed", "loop") and reread:
                # history: the re-read graph (from the dictionary or from YAML) is restructured further and the
                # result is written and read again
                cont = reread[len(g) % 2]
                try:
                    if stage == "closed":
                        cont.restructure_loop()
                    cont.restructure_branch()
                except Exception as e:
                    if not library_raised(e):
                        raise
                    col.count("not_evaluated_stage_raised")
                    cont = None
                if cont is not None:
                    col.count("roundtrips")
                    try:
                        roundtrip(g, cont)
                    except M.Viol as v:
                        raise M.Viol(f"after-reload:{v.clause}", f"graph re-read after {stage}, restructured further, written again: {v.msg}")
        except M.Viol as v:
            col.fail(f"C15:{v.clause}", f"[{stage}/{payload}] {v.msg}", dict(graph=gg.graph_to_json(g), stage=stage, payload=payload), len(g))
        flat = M.Flat(scfg)
        nt = nt or (bool(flat.regions) and any(isinstance(b, SyntheticBranch) for b in flat.blocks.values()) and any(len(b._jump_targets) == 2 and list(b._jump_targets) != sorted(b._jump_targets) for b in flat.blocks.values()))
    classes = gg.classify(intg)
    col.case((gg.gkey(g), payload), len(g), nt, sample=dict(graph=gg.graph_to_str(g), payload=payload, origin=origin), classes=classes + ["payload:" + payload, "origin:" + origin])


def _eval_byteflow(col, label, code):
    """graphs as the bytecode front end builds them (real begin/end ranges,
    generator-made names), every stage."""
    from numba_scfg.core.datastructures.byte_flow import ByteFlow

    nt = False
    for stage in STAGES:
        try:
            flow = ByteFlow.from_bytecode(code)
            g = {k: tuple(b._jump_targets) for k, b in flow.scfg.graph.items()}
            if stage != "none":
                M.apply_stage(flow.scfg, stage)
        except Exception as e:
            if not library_raised(e):
                raise
            col.count("byteflow_not_evaluated")
            continue
        col.count("roundtrips")
        try:
            roundtrip(g, flow.scfg)
        except M.Viol as v:
            col.fail(f"C15:bf:{v.clause}", f"[{stage}] {label}: {v.msg}", dict(function=label, stage=stage), len(g))
        nt = nt or (stage == "branch" and len(g) > 3)
    col.case(("bf", label), len(code.co_code), nt, sample=dict(function=label, front_end="bytecode"), classes=["byteflow"])


def _run_arb(spec):
    """arbitrary flat block graphs as a caller may build them (SCFG(graph=...)
    or a hand-written dictionary): out-degree <= 3, duplicate targets, self
    loops, several heads, caller-declared back edges (any subset of a block's
    targets), plain or bytecode payload.  Round-trip clauses only (such graphs
    are not closed CFGs, so there is nothing to walk)."""
    import dataclasses

    from hypothesis import HealthCheck, Phase, given, seed as hseed, settings, strategies as st

    from vpbt.core import Collector, h64

    _, seed, shard, examples = spec
    col = Collector()

    @st.composite
    def arb(draw):
        n = draw(st.integers(1, 7))
        style = draw(st.sampled_from(["num", "alpha", "gen"]))
        names = [str(i) if style == "num" else ("blk" + chr(97 + i) if style == "alpha" else f"basic_block_{i}") for i in range(n)]
        g, be = {}, {}
        for nm in names:
            k = draw(st.sampled_from([0, 1, 1, 2, 2, 2, 3]))
            ts = tuple(draw(st.sampled_from(names)) for _ in range(k))
            g[nm] = ts
            if ts and draw(st.integers(0, 2)) == 0:
                be[nm] = tuple(dict.fromkeys(t for t in ts if draw(st.booleans())))
        return g, be, draw(st.sampled_from(["plain", "bytecode"]))

    @hseed(h64(("c15arb", seed, shard)))
    @settings(max_examples=examples, database=None, deadline=None, phases=[Phase.generate], suppress_health_check=list(HealthCheck))
    @given(x=arb())
    def t(x):
        g, be, payload = x
        s0 = M.mk_scfg(g, payload)
        scfg = SCFG({n: dataclasses.replace(b, backedges=be[n]) if be.get(n) else b for n, b in s0.graph.items()})
        col.count("roundtrips")
        try:
            roundtrip(g, scfg, semantic=False)
        except M.Viol as v:
            col.fail(f"C15:arb:{v.clause}", f"[arbitrary flat graph/{payload}] {v.msg}", dict(arb=dict(graph=[[k, list(v_)] for k, v_ in g.items()], backedges={k: list(v_) for k, v_ in be.items()}, payload=payload)), len(g))
        dup = any(len(set(ts)) < len(ts) for ts in g.values())
        col.case(("arb", tuple(g.items()), tuple(sorted(be.items())), payload), len(g), dup or bool(be), sample=dict(graph=gg.graph_to_str(g), backedges={k: list(v_) for k, v_ in be.items()}, payload=payload, origin="arbitrary"), classes=["origin:arbitrary"] + (["duplicate_targets"] if dup else []) + (["declared_backedges"] if be else []))

    t()
    return col.result()


def _run_deep(spec):
    """deeply nested graphs (if in if in if ..., loop in loop in loop ...), every stage; the library is called under
    the interpreter's default recursion limit"""
    from vpbt.checks import c02
    from vpbt.core import Collector, default_recursion_limit

    col = Collector()
    f = {"nest": c02._big_nest, "comb": c02._big_comb, "exits": c02._big_exits, "entries": c02._big_entries}[spec[2]]
    intg = f(spec[1])
    g = gg.restyle(intg, "num")
    for stage in ("closed", "branch"):
        scfg = M.mk_scfg(g, "plain")
        try:
            with default_recursion_limit():
                M.apply_stage(scfg, stage)
        except Exception as e:
            if not library_raised(e):
                raise
            col.count("not_evaluated_stage_raised")
            continue
        col.count("roundtrips")
        try:
            roundtrip(g, scfg, semantic=False, default_limit=True)
        except M.Viol as v:
            col.fail(f"C15:deep:{v.clause}", f"[{stage}] {spec[2]} graph of {len(g)} blocks, hierarchy depth {M.Flat(scfg).depth}: {v.msg}", dict(deep=[spec[1], spec[2]]), 10)
    col.case(("deep", spec[1], spec[2]), len(g), True, sample=dict(shape=spec[2], blocks=len(g), origin="deep"), classes=["origin:deep"])
    return col.result()


def run(spec):
    if spec[0] == "deep":
        return _run_deep(spec)
    if spec[0] == "arb":
        return _run_arb(spec)
    if spec[0] == "byteflow":
        from vpbt import bytecode_model as bm
        from vpbt.core import Collector

        _, shard, nshards, limit = spec
        col = Collector()
        n = 0
        for label, code in bm.corpus_codes(shard, nshards):
            if n >= limit:
                break
            if not bm.eligible(code) or len(code.co_code) > 800 or bm.shape_of(code) is None:
                continue
            n += 1
            _eval_byteflow(col, label, code)
        return col.result()
    return sweep.run(spec, _eval)


def plan(tier, seed):
    specs = sweep.plan(tier, seed, scale=0.25 if tier == "quick" else 0.15)
    if tier == "quick":
        specs += [("byteflow", s, 16, 12) for s in range(16)]
        specs += [("arb", seed, s, 150) for s in range(8)]
        specs += [("deep", 120, "comb"), ("deep", 120, "nest"), ("deep", 300, "comb"), ("deep", 9, "exits"), ("deep", 9, "entries")]
    else:
        specs += [("byteflow", s, 16, 10**9) for s in range(16)]
        specs += [("arb", seed, s, 3000) for s in range(16)]
        specs += [("deep", 120, "comb"), ("deep", 120, "nest"), ("deep", 300, "comb"), ("deep", 300, "nest"), ("deep", 500, "comb")]
    return specs


def replay(inp):
    if "deep" in inp:
        r = _run_deep(("deep", inp["deep"][0], inp["deep"][1]))
        return [(s_, f["msg"]) for s_, f in r["failures"].items()]
    if "function" in inp:
        from vpbt import bytecode_model as bm
        from vpbt.core import Collector

        col = Collector()
        for label, code in bm.corpus_codes(modules=[inp["function"].split(":")[0]]):
            if label == inp["function"]:
                _eval_byteflow(col, label, code)
        return [(s_, f["msg"]) for s_, f in col.failures.items()]
    if "arb" in inp:
        import dataclasses

        a = inp["arb"]
        g = {k: tuple(v) for k, v in a["graph"]}
        s0 = M.mk_scfg(g, a["payload"])
        scfg = SCFG({n: dataclasses.replace(b, backedges=tuple(a["backedges"][n])) if a["backedges"].get(n) else b for n, b in s0.graph.items()})
        try:
            roundtrip(g, scfg, semantic=False)
        except M.Viol as v:
            return [(f"C15:arb:{v.clause}", v.msg)]
        return []
    g = gg.graph_from_json(inp["graph"])
    scfg = M.mk_scfg(g, inp.get("payload", "plain"))
    try:
        if inp.get("stage", "branch") != "none":
            M.apply_stage(scfg, inp.get("stage", "branch"))
    except Exception as e:
        if not library_raised(e):
            raise
        return []
    try:
        reread = roundtrip(g, scfg)
        st_ = inp.get("stage", "branch")
        if st_ in ("closed", "loop") and reread:
            cont = reread[len(g) % 2]
            try:
                if st_ == "closed":
                    cont.restructure_loop()
                cont.restructure_branch()
            except Exception as e:
                if not library_raised(e):
                    raise
                return []
            try:
                roundtrip(g, cont)
            except M.Viol as v:
                return [(f"C15:after-reload:{v.clause}", v.msg)]
    except M.Viol as v:
        return [(f"C15:{v.clause}", v.msg)]
    return []


shrink = G.generic_shrink(replay)
