"""G3: Python functions in the supported statement subset, as source text.

All observable behaviour of a generated function goes through an environment
supplied at run time (vpbt.pyexec): d(k) next bit of a decision tape, e(k, v)
logs and returns v, it(k) tape-driven logging iterator, box(v).v, [v][0].
Every call site has a unique tag k, so the sequence of external calls is a
precise trace.

`features(src)` computes the structural tags of a program (own ast walk); the
feature switches of `programs()` exclude a construct by construction.
"""

from __future__ import annotations

import ast

from hypothesis import strategies as st

# feature switches: True = construct allowed
DEFAULT_FEATURES = dict(
    boolop=True,  # and/or anywhere
    boolop_in_operand=True,  # a hoisted and/or that is an operand of a comparison / arithmetic / call argument / aug-assign value
    boolop_nested_operand=True,  # a hoisted and/or whose non-first operand is itself an and/or
    loopvar_live=True,  # reading / pre-assigning a for target around a loop that may run zero times
    dead_code_after_jump=True,  # statements after break/continue/return in the same suite
    dead_stores=True,  # assignments / loops inside such dead code (pruning them changes which names are locals)
    empty_arms=True,  # if whose arms are all pass; loops whose body prunes to nothing
    loop_first=True,  # function whose first statement is a loop
    nonname_test=True,  # attribute / subscript / call / unary / constant / ifexp as if/while test
    shadow_builtins=True,  # locals named iter / next; sentinel string as value
    for_loops=True,
    for_tuple_target=True,  # for u, v in enumerate(...): the desugaring's "target = None" cannot be unpacked
    while_loops=True,
    ifexp=True,
    is_none=True,
    unbound_reads=True,  # do not pre-initialise the locals
    rich_exprs=True,  # walrus, lambda call, comprehension, f-string, dict / tuple literal, starred argument, in / not in, chained and tuple assignment
)

VARS = ["a", "b", "x", "y"]


class _Gen:
    def __init__(self, draw, feats, max_depth):
        self.draw = draw
        self.f = feats
        self.n = 0
        self.max_depth = max_depth
        self.forvars = []
        self.vars = list(VARS)
        if feats["shadow_builtins"]:
            self.vars_extra = ["iter", "next"]
        else:
            self.vars_extra = []

    def tag(self):
        self.n += 1
        return self.n

    def i(self, lo, hi):
        return self.draw(st.integers(lo, hi))

    def pick(self, xs):
        return xs[self.i(0, len(xs) - 1)]

    def var(self, store=False):
        vs = self.vars
        if self.vars_extra and self.i(0, 24) == 0:
            return self.pick(self.vars_extra)
        v = self.pick(vs)
        return v

    # ------------------------------------------------------------ expressions
    def atom(self):
        r = self.i(0, 19)
        if r < 7:
            return self.var()
        if r < 10:
            return str(self.pick([0, 1, 2, 3]))
        if r == 10 and self.f["rich_exprs"] and self.i(0, 3) == 0:
            # a multi-line literal with a whitespace-only line and indented lines (source-level whitespace handling)
            return "\"\"\"s\n    \n  t\n\"\"\""
        if r == 10:
            return self.pick(["None", "True", "False", "'s'"] + (["'__scfg_sentinel__'"] if self.f["shadow_builtins"] else []))
        return f"d({self.tag()})"

    def expr(self, depth=0, operand=False, in_bool_tail=False, opaque=False):
        """operand: we are an operand of a comparison / arithmetic / call
        argument / aug-assignment value, i.e. of an expression the front end
        descends into when it hoists and/or.  opaque: we are below an
        expression the front end does not descend into (not, -, subscript,
        attribute, conditional expression): Python itself evaluates whatever
        stands there, so no known finding restricts it."""
        if depth > 2 or self.i(0, 9) < 3:
            return self.atom()
        kinds = ["cmp", "cmp", "bin", "call", "not"]
        if self.f["boolop"] and (opaque or ((not operand or self.f["boolop_in_operand"]) and (not in_bool_tail or self.f["boolop_nested_operand"]))):
            kinds += ["bool", "bool", "bool"]
        kinds += ["chaincmp", "neg", "sub", "attr"]
        if self.f["rich_exprs"]:
            kinds += ["lambda", "listcomp", "fstr", "dictlit", "tuple", "star", "in"]
            if not getattr(self, "_nested", 0):
                kinds.append("walrus")  # not inside a lambda / comprehension: it would bind in (or is illegal in) the nested scope
        if self.f["ifexp"]:
            kinds.append("ifexp")
        if self.f["is_none"]:
            kinds.append("isnone")
        k = self.pick(kinds)
        d = depth + 1
        if k == "bool":
            n = self.pick([2, 2, 2, 3, 4])
            op = self.pick(["and", "or"])
            parts = [self.expr(d, operand=False, in_bool_tail=False, opaque=opaque)]
            for _ in range(n - 1):
                parts.append(self.expr(d, operand=False, in_bool_tail=True, opaque=opaque))
            return "(" + f" {op} ".join(parts) + ")"
        if k == "cmp":
            return f"({self.expr(d, True, opaque=opaque)} {self.pick(['<', '==', '!=', '>=', '<=', '>'])} {self.expr(d, True, opaque=opaque)})"
        if k == "isnone":
            return f"({self.expr(d, True, opaque=opaque)} {self.pick(['is', 'is not'])} None)"
        if k == "chaincmp":
            return f"({self.expr(d, True, opaque=opaque)} < {self.expr(d, True, opaque=opaque)} <= {self.expr(d, True, opaque=opaque)})"
        if k == "bin":
            return f"({self.expr(d, True, opaque=opaque)} {self.pick(['+', '-', '*'])} {self.expr(d, True, opaque=opaque)})"
        if k == "not":
            return f"(not {self.expr(d, True, opaque=True)})"
        if k == "neg":
            return f"(-{self.expr(d, True, opaque=True)})"
        if k == "call":
            if self.i(0, 3) == 0:
                return f"e({self.tag()}, {self.expr(d, True, opaque=opaque)}, {self.expr(d, True, opaque=opaque)})"
            return f"e({self.tag()}, {self.expr(d, True, opaque=opaque)})"
        if k == "ifexp":
            return f"({self.expr(d, True, opaque=True)} if {self.expr(d, True, opaque=True)} else {self.expr(d, True, opaque=True)})"
        if k == "walrus":
            return f"({self.pick(['x', 'y'])} := {self.expr(d, True, opaque=True)})"
        if k in ("lambda", "listcomp"):
            self._nested = getattr(self, "_nested", 0) + 1
            try:
                inner = self.expr(d, True, opaque=True)
            finally:
                self._nested -= 1
            return f"(lambda: {inner})()" if k == "lambda" else f"[q for q in [{inner}]][0]"
        if k == "fstr":
            return "f\"{(" + self.expr(d, True, opaque=True) + ")}\""
        if k == "dictlit":
            return f"{{1: {self.expr(d, True, opaque=True)}}}[1]"
        if k == "tuple":
            return f"({self.expr(d, True, opaque=True)}, {self.expr(d, True, opaque=True)})[{self.pick([0, 1])}]"
        if k == "star":
            return f"e({self.tag()}, *[{self.expr(d, True, opaque=True)}])"
        if k == "in":
            return f"({self.expr(d, True, opaque=opaque)} {self.pick(['in', 'not in'])} ({self.expr(d, True, opaque=True)}, {self.expr(d, True, opaque=True)}))"
        if k == "sub":
            return f"[{self.expr(d, True, opaque=True)}][0]"
        if k == "attr":
            return f"box({self.expr(d, True, opaque=True)}).v"
        return self.atom()

    def test(self, loop=False):
        """an if/while test."""
        if loop and self.f["nonname_test"] and self.i(0, 19) == 0:
            return self.pick(["True", "1"])  # the "while True:" idiom: left only by break / return
        if loop and self.i(0, 9) < 7:
            # tape-driven loop tests keep the share of run-away loops low
            r = self.i(0, 3)
            if r == 0 or not self.f["nonname_test"]:
                return f"d({self.tag()}) > 0"
            if r == 1:
                return f"d({self.tag()})"
            if r == 2 and self.f["boolop"]:
                return f"d({self.tag()}) and {self.expr(1, in_bool_tail=True)}"
            return f"d({self.tag()}) != 0"
        if not self.f["nonname_test"]:
            r = self.i(0, 5)
            if r < 2:
                return self.var()
            if r < 5 or not self.f["boolop"]:
                return f"{self.expr(1, True)} {self.pick(['<', '==', '!=', '>='])} {self.expr(1, True)}"
            return f"{self.var()} {self.pick(['and', 'or'])} {self.expr(1, True)} < {self.expr(1, True)}"
        return self.expr(0)

    # ------------------------------------------------------------- statements
    def suite(self, depth, inloop, need_effect=False):
        n = self.pick([1, 1, 2, 2, 3])
        out = []
        effect = False
        dead = False
        for _ in range(n):
            s = self.stmt(depth, inloop, dead and not self.f["dead_stores"])
            out += s
            first = s[0].strip().split()[0].rstrip(":")
            if first not in ("pass", "break", "continue"):
                effect = True
            if first in ("return", "break", "continue"):
                if not self.f["dead_code_after_jump"] or self.i(0, 9) < 8:
                    break
                dead = True
        if (need_effect or not self.f["empty_arms"]) and not effect:
            out = [f"e({self.tag()}, {self.atom()})"] + out
        return out

    def stmt(self, depth, inloop, no_store=False):
        ks = ["assign", "assign", "aug", "expr", "expr", "return", "pass"]
        if no_store:
            ks = ["expr", "expr", "return", "pass"]
        elif depth < self.max_depth:
            ks += ["if", "if", "ifelse", "ifelse"]
            if self.f["while_loops"]:
                ks += ["while", "while"]
            if self.f["for_loops"]:
                ks += ["for", "for"]
        if inloop:
            ks += ["break", "continue"]
        k = self.pick(ks)

        def ind(ls):
            return ["    " + l for l in ls]

        if k == "assign":
            if self.f["rich_exprs"]:
                r = self.i(0, 11)
                if r == 0:
                    return [f"{self.var(True)} = {self.var(True)} = {self.expr()}"]
                if r == 1:
                    return [f"{self.var(True)}, {self.var(True)} = {self.expr(1, True, opaque=True)}, {self.expr(1, True, opaque=True)}"]
            return [f"{self.var(True)} = {self.expr()}"]
        if k == "aug":
            return [f"{self.var(True)} {self.pick(['+=', '-=', '*='])} {self.expr(0, operand=True)}"]
        if k == "expr":
            if self.i(0, 4) == 0:
                return [self.expr()]
            return [f"e({self.tag()}, {self.expr(1, True)})"]
        if k == "return":
            return [f"return {self.expr()}"] if self.i(0, 9) < 8 else ["return"]
        if k == "pass":
            return ["pass"]
        if k == "break":
            return ["break"]
        if k == "continue":
            return ["continue"]
        if k == "if":
            return [f"if {self.test()}:"] + ind(self.suite(depth + 1, inloop))
        if k == "ifelse":
            o = [f"if {self.test()}:"] + ind(self.suite(depth + 1, inloop))
            for _ in range(self.pick([0, 0, 0, 1, 2])):
                o += [f"elif {self.test()}:"] + ind(self.suite(depth + 1, inloop))
            return o + ["else:"] + ind(self.suite(depth + 1, inloop))
        if k == "while":
            o = [f"while {self.test(loop=True)}:"] + ind(self.suite(depth + 1, True, need_effect=not self.f["empty_arms"]))
            if self.i(0, 9) < 3:
                o += ["else:"] + ind(self.suite(depth + 1, inloop))
            return o
        if k == "for":
            if self.f["loopvar_live"]:
                tv = self.var(True)
            else:
                tv = f"i{len(self.forvars)}"
                self.forvars.append(tv)
            if self.f["for_tuple_target"] and self.i(0, 5) == 0:
                tv2 = self.var(True) if self.f["loopvar_live"] else f"j{len(self.forvars)}"
                head = f"for {tv}, {tv2} in enumerate(it({self.tag()})):" if tv != tv2 else f"for {tv} in it({self.tag()}):"
            else:
                head = f"for {tv} in it({self.tag()}):"
            o = [head] + ind(self.suite(depth + 1, True, need_effect=not self.f["empty_arms"]))
            if self.i(0, 9) < 3:
                o += ["else:"] + ind(self.suite(depth + 1, inloop))
            return o
        raise AssertionError(k)

    def func(self):
        pre = []
        if not self.f["unbound_reads"] or self.i(0, 9) < 8:
            pre = ["x = 0", "y = 1"]
        body = []
        dead = False
        for _ in range(self.pick([1, 2, 2, 3, 3, 4])):
            s = self.stmt(0, False, dead and not self.f["dead_stores"])
            body += s
            if s[0].startswith("return"):
                if not self.f["dead_code_after_jump"] or self.i(0, 9) < 8:
                    break
                dead = True
        if not self.f["loop_first"] and not pre and body and body[0].split()[0] in ("while", "for"):
            pre = ["x = 0"]
        lines = pre + body
        return "def f(a, b):\n" + "\n".join("    " + l for l in lines) + "\n"


@st.composite
def programs(draw, feats=None, max_depth=3):
    f = dict(DEFAULT_FEATURES)
    if feats:
        f.update(feats)
    return _Gen(draw, f, max_depth).func()


# --------------------------------------------------------------------------
# structural tags of a program (own analysis of the source)


def _is_jump(s):
    return isinstance(s, (ast.Return, ast.Break, ast.Continue))


def _hoist_scan(tree, tags):
    """The two and/or findings concern only the and/or expressions the front
    end hoists: those it reaches from a statement's value / an if or while test
    by descending through and/or operands, comparison operands, arithmetic
    operands and positional call arguments (AST2SCFGTransformer.handle_expression
    descends into exactly these).  An and/or below anything else (not, -,
    subscript, attribute, conditional expression, list, call function or
    keyword, for-iterable, assignment target) stays inside its expression and is
    evaluated by Python itself."""

    def rec(node, under):
        if isinstance(node, ast.BoolOp):
            if under:
                tags.add("boolop_in_operand")
            for i, v in enumerate(node.values):
                if i >= 1 and isinstance(v, ast.BoolOp):
                    tags.add("boolop_nested_operand")
                rec(v, False)
        elif isinstance(node, ast.Compare):
            rec(node.left, True)
            for c in node.comparators:
                rec(c, True)
        elif isinstance(node, ast.BinOp):
            rec(node.left, True)
            rec(node.right, True)
        elif isinstance(node, ast.Call):
            for a in node.args:
                rec(a, True)

    for st_ in ast.walk(tree):
        if isinstance(st_, (ast.Assign, ast.Expr, ast.Return)) and st_.value is not None:
            rec(st_.value, False)
        elif isinstance(st_, ast.AugAssign):
            rec(st_.value, True)
        elif isinstance(st_, (ast.If, ast.While)):
            rec(st_.test, False)


def features(src: str) -> set[str]:
    tree = ast.parse(src)
    fn = tree.body[0]
    tags = set()
    _hoist_scan(tree, tags)
    if fn.body and isinstance(fn.body[0], (ast.While, ast.For)):
        tags.add("loop_first")
    assigned_before = set()

    def suites(node):
        for name in ("body", "orelse"):
            s = getattr(node, name, None)
            if isinstance(s, list) and s and isinstance(s[0], ast.stmt):
                yield s

    def all_noop(stmts):
        return all(isinstance(s, (ast.Pass, ast.Break, ast.Continue)) for s in stmts)

    for node in ast.walk(tree):
        if isinstance(node, (ast.If, ast.While, ast.For, ast.FunctionDef)):
            for s in suites(node):
                for i, st_ in enumerate(s[:-1]):
                    if _is_jump(st_):
                        tags.add("dead_code_after_jump")
                        for dead_st in s[i + 1 :]:
                            if any(isinstance(n, ast.Name) and isinstance(n.ctx, ast.Store) for n in ast.walk(dead_st)):
                                tags.add("dead_stores")
                        break
        if isinstance(node, ast.If):
            tags.add("if")
            if all(isinstance(s, ast.Pass) for s in node.body) and all(isinstance(s, ast.Pass) for s in node.orelse):
                tags.add("empty_arms")
            if all_noop(node.body) or (node.orelse and all_noop(node.orelse)):
                tags.add("noop_arm")
        if isinstance(node, (ast.While, ast.For)):
            tags.add("loop")
            tags.add("while" if isinstance(node, ast.While) else "for")
            if node.orelse:
                tags.add("loop_else")
                if any(isinstance(n, ast.Break) for n in ast.walk(node)):
                    tags.add("loop_else_break")
            if all_noop(node.body):
                tags.add("empty_arms")
        if isinstance(node, (ast.If, ast.While)):
            t = node.test
            if not isinstance(t, (ast.Name, ast.Compare, ast.BoolOp)):
                tags.add("nonname_test")
        if isinstance(node, ast.For) and not isinstance(node.target, ast.Name):
            tags.add("for_tuple_target")
        if isinstance(node, ast.BoolOp):
            tags.add("boolop")
            for v in node.values[1:]:
                if any(isinstance(n, ast.Call) for n in ast.walk(v)):
                    tags.add("boolop_effect_operand")
            if isinstance(node.values[0], ast.BoolOp):
                tags.add("boolop_nested_first")
        if isinstance(node, ast.Compare) and len(node.ops) > 1:
            tags.add("chained_compare")
        if isinstance(node, ast.IfExp):
            tags.add("ifexp")
        if isinstance(node, ast.Name) and node.id in ("iter", "next") and isinstance(node.ctx, ast.Store):
            tags.add("shadow_builtins")
        if isinstance(node, ast.Constant) and node.value == "__scfg_sentinel__":
            tags.add("shadow_builtins")
    # for-target liveness: the target is a name that is also read or written
    # outside the loop body
    for node in ast.walk(tree):
        if isinstance(node, ast.For) and isinstance(node.target, ast.Name):
            tv = node.target.id
            inside = {id(n) for st_ in node.body for n in ast.walk(st_)} | {id(node.target)}
            for n in ast.walk(tree):
                if isinstance(n, ast.Name) and n.id == tv and id(n) not in inside:
                    tags.add("loopvar_live")
            if tv in ("a", "b"):
                tags.add("loopvar_live")
            # nested loops over the same target
            for n in ast.walk(node):
                if n is not node and isinstance(n, ast.For) and isinstance(n.target, ast.Name) and n.target.id == tv:
                    tags.add("loopvar_live")
    depth = 0

    def nest(n, d):
        nonlocal depth
        depth = max(depth, d)
        for ch in ast.iter_child_nodes(n):
            nest(ch, d + (1 if isinstance(ch, (ast.If, ast.While, ast.For)) else 0))

    nest(fn, 0)
    tags.add(f"depth={min(depth, 4)}")
    return tags


def size_of(src: str) -> int:
    return src.count("\n")


# --------------------------------------------------------------------------
# fixed families of programs with sizes / counts that random drawing does not reach


def template_programs():
    """(label, source): loops with k distinct exits, k-arm elif chains, k-operand and/or chains, k levels of loop
    nesting with break / continue / else at every level, k consecutive early returns; all decisions tape-driven."""
    out = []
    tag = [100]

    def t():
        tag[0] += 1
        return tag[0]

    for k in (3, 5, 8, 9, 10, 13):
        body = "".join(f"        if d({t()}):\n            return e({t()}, {i})\n" for i in range(k))
        out.append((f"while-{k}-returns", f"def f(a, b):\n    x = 0\n    while d({t()}):\n        x += 1\n{body}        e({t()}, x)\n    return x\n"))
        body = "".join(f"        if d({t()}):\n            x = {i}\n            break\n" for i in range(k))
        out.append((f"for-{k}-breaks-else", f"def f(a, b):\n    x = -1\n    for i0 in it({t()}):\n{body}        e({t()}, i0)\n    else:\n        x = e({t()}, 99)\n    return x\n"))
        arms = "".join(f"    elif d({t()}):\n        x = e({t()}, {i})\n" for i in range(k))
        out.append((f"elif-{k}", f"def f(a, b):\n    x = 0\n    if d({t()}):\n        x = e({t()}, -1)\n{arms}    else:\n        x = e({t()}, -2)\n    return x\n"))
        for op in ("and", "or"):
            chain = f" {op} ".join(f"d({t()})" for _ in range(k))
            out.append((f"{op}-chain-{k}", f"def f(a, b):\n    x = {chain}\n    if {chain}:\n        return e({t()}, x)\n    return x\n"))
        rets = "".join(f"    if d({t()}):\n        return e({t()}, {i})\n" for i in range(k))
        out.append((f"early-returns-{k}", f"def f(a, b):\n{rets}    return e({t()}, -1)\n"))
    for k in (3, 5, 7):
        lines = ["def f(a, b):", "    x = 0"]
        for lvl in range(k):
            ind = "    " * (lvl + 1)
            lines.append(f"{ind}while d({t()}):")
            lines.append(f"{ind}    x += 1")
            lines.append(f"{ind}    if d({t()}):")
            lines.append(f"{ind}        continue")
            lines.append(f"{ind}    if d({t()}):")
            lines.append(f"{ind}        break")
        ind = "    " * (k + 1)
        lines.append(f"{ind}e({t()}, x)")
        for lvl in range(k - 1, -1, -1):
            ind = "    " * (lvl + 1)
            lines.append(f"{ind}else:")
            lines.append(f"{ind}    x = e({t()}, {lvl})")
            if lvl % 2 and lvl > 0:
                lines.append(f"{ind}    break")
        lines.append("    return x")
        out.append((f"nested-while-{k}", "\n".join(lines) + "\n"))
    out.append(("while-true-nested-else-break", f"def f(a, b):\n    x = 0\n    while True:\n        x += 1\n        for i0 in it({t()}):\n            if d({t()}):\n                return x\n        else:\n            if d({t()}):\n                break\n    return e({t()}, x)\n"))
    out.append(("while-1-only-inner-exit", f"def f(a, b):\n    x = 0\n    while 1:\n        x += 1\n        while d({t()}):\n            e({t()}, x)\n        else:\n            break\n"))
    return out


def jump_arm_programs():
    """exhaustive small family: a loop whose body is an if / elif / else chain with every combination of arm kinds
    (pass, continue, break, return, a statement), followed by nothing / a statement / break / return, with and without a
    loop-else, for while and for loops, followed by a trailing statement - 5^3 x 6 x 2 x 2 = 3000 programs, plus 768 four-arm chains.  Loops that
    are loops only because of one continue arm, arms that all leave, empty arms next to jumping arms ... all occur."""
    import itertools

    out = []
    arms = ["pass", "continue", "break", "return e({t}, 7)", "x = e({t}, x)"]
    tails = [None, "x = e({t}, x + 1)", "break", "return e({t}, x)", "x = e({t}, x + 1)\n        break", "x = e({t}, x + 1)\n        return e({t}, x)"]
    n = [500]

    def t():
        n[0] += 1
        return n[0]

    for a1, a2, a3 in itertools.product(arms, repeat=3):
        for tail in tails:
            for loop in ("while d({t}):", "for i0 in it({t}):"):
                for orelse in (False, True):
                    lines = ["def f(a, b):", "    x = 0", "    " + loop.format(t=t())]
                    lines += [f"        if d({t()}):", "            " + a1.format(t=t())]
                    lines += [f"        elif d({t()}):", "            " + a2.format(t=t())]
                    lines += ["        else:", "            " + a3.format(t=t())]
                    if tail:
                        lines.append("        " + tail.replace("{t}", "{}").format(*[t() for _ in range(tail.count("{t}"))]))
                    if orelse:
                        lines += ["    else:", f"        x = e({t()}, -1)"]
                    lines += [f"    e({t()}, x)", "    return x"]
                    out.append((f"arms:{a1[:4]}/{a2[:4]}/{a3[:4]}:{(tail or 'none')[:5]}:{loop[:3]}:{'else' if orelse else 'noelse'}", "\n".join(lines) + "\n"))
    # four-arm chains over (pass, continue, return, statement), body ending in break, optionally after a statement or
    # a conditional return: 4^4 x 3 = 768 programs
    arms4 = ["pass", "continue", "return e({}, 7)", "x = e({}, x)"]
    tails4 = ["break", "x = e({}, x + 1)\n        break", "if d({}):\n            return e({}, 9)\n        break"]

    def fill(text):
        return text.format(*[t() for _ in range(text.count("{}"))])

    for chain in itertools.product(arms4, repeat=4):
        for tail in tails4:
            lines = ["def f(a, b):", "    x = 0", f"    while d({t()}):"]
            for i, a in enumerate(chain):
                head = f"if d({t()}):" if i == 0 else (f"elif d({t()}):" if i < 3 else "else:")
                lines += ["        " + head, "            " + fill(a)]
            lines.append("        " + fill(tail))
            lines += [f"    return e({t()}, x)"]
            out.append(("arms4:" + "/".join(a[:4] for a in chain) + ":" + tail[:5], "\n".join(lines) + "\n"))
    return out
