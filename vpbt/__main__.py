import sys
from vpbt.core import main

if __name__ == "__main__":
    sys.exit(main())
