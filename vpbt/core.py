"""Runner infrastructure: environment pinning, sharding, collection of cases
and failures, known-findings triage, replay files, evidence files.

Contract of a check module (vpbt/checks/cXX.py):

    PID        = "C01"
    RULE       = "<how cases are generated; what makes one non-trivial>"
    ASSUME     = [ ... ]                      # assumptions / trusted base
    def plan(tier, seed) -> list[spec]        # picklable shard specs
    def run(spec) -> dict                     # Collector.result()
    def replay(obj) -> list[(sig, msg)]       # plain oracle on one saved input
    def shrink(fail) -> fail                  # optional
    def finalize(cov, merged, tier) -> None   # optional: extra coverage keys

Exit codes of the runner: 0 held / 1 VIOLATION lines printed / 2 harness
error (never reported as a violation).
"""

from __future__ import annotations

import hashlib
import importlib
import json
import multiprocessing as mp
import os
import re
import sys
import time
import traceback
from collections import Counter
from pathlib import Path

VERIF = Path(__file__).resolve().parent.parent
REPO = Path(os.environ.get("VERIF_REPO", "/repo")).resolve()
NPROC = int(os.environ.get("VERIF_NPROC", "16"))


# --------------------------------------------------------------------------
# environment


def pin_environment() -> None:
    """Make the run a function of (tree, tier, seed): fixed hash seed, code
    under test imported from $VERIF_REPO's working tree."""
    if os.environ.get("PYTHONHASHSEED") != "0":
        env = dict(os.environ)
        env["PYTHONHASHSEED"] = "0"
        env["PYTHONDONTWRITEBYTECODE"] = "1"
        os.execve(sys.executable, [sys.executable, "-m", "vpbt"] + sys.argv[1:], env)
    sys.dont_write_bytecode = True
    import_repo()


def import_repo() -> None:
    sys.path[:] = [p for p in sys.path if Path(p or ".").resolve() != REPO]
    sys.path.insert(0, str(REPO))
    if str(VERIF) not in sys.path:
        sys.path.insert(1, str(VERIF))
    import logging

    import numba_scfg  # noqa

    where = Path(numba_scfg.__file__).resolve()
    if REPO not in where.parents:
        print(f"HARNESS-ERROR numba_scfg imported from {where}, not from {REPO}")
        sys.exit(2)
    # rendering.py calls logging.basicConfig(level=DEBUG) on import
    logging.disable(logging.CRITICAL)


class default_recursion_limit:
    """Context manager: the interpreter's default recursion limit (1000) around a library call.  The harness itself
    runs with a larger limit for its own recursive oracles; the library must not need that."""

    def __enter__(self):
        self._old = sys.getrecursionlimit()
        sys.setrecursionlimit(1000)
        return self

    def __exit__(self, *exc):
        sys.setrecursionlimit(self._old)
        return False


class debug_logging:
    """Context manager: the process configuration 'debug logging switched on with a handler that formats every
    record' (what `logging.basicConfig(level=DEBUG)` - which numba_scfg.rendering itself calls on import - gives a
    user).  The library's lazily formatted debug messages are then really evaluated.  Output goes nowhere.  The
    properties must hold under this configuration exactly as with logging off."""

    class _Sink:
        def write(self, s):
            return len(s)

        def flush(self):
            pass

    def __enter__(self):
        import logging

        root = logging.getLogger()
        self._saved = (root.manager.disable, root.level, list(root.handlers))
        for h in list(root.handlers):
            root.removeHandler(h)
        h = logging.StreamHandler(self._Sink())
        h.setFormatter(logging.Formatter("%(levelname)s %(name)s %(message)s"))
        root.addHandler(h)
        root.setLevel(logging.DEBUG)
        logging.disable(logging.NOTSET)
        return self

    def __exit__(self, *exc):
        import logging

        root = logging.getLogger()
        for h in list(root.handlers):
            root.removeHandler(h)
        dis, lvl, hs = self._saved
        for h in hs:
            root.addHandler(h)
        root.setLevel(lvl)
        logging.disable(dis)
        return False


# --------------------------------------------------------------------------
# hashing / normalisation


def h64(obj) -> int:
    return int.from_bytes(
        hashlib.blake2b(repr(obj).encode(), digest_size=8).digest(), "big"
    )


_num = re.compile(r"\d+")


def norm(s: str, limit: int = 120) -> str:
    """Bucket messages by shape: digits -> N."""
    return _num.sub("N", s)[:limit]


def lib_frame(exc: BaseException) -> str:
    """innermost numba_scfg frame 'file:function' of an exception."""
    tb = traceback.extract_tb(exc.__traceback__)
    for fr in reversed(tb):
        if "numba_scfg" in fr.filename and "/tests/" not in fr.filename:
            return f"{Path(fr.filename).name}:{fr.name}"
    return "?"


def library_raised(exc: BaseException) -> bool:
    """True iff the exception passed through code of the library under test.
    Checks that skip a case because 'the library raised' must call this and
    re-raise otherwise: an exception of the harness itself is a harness error
    (exit 2), never a silently skipped case."""
    tb = traceback.extract_tb(exc.__traceback__)
    return any("numba_scfg" in fr.filename and "/tests/" not in fr.filename for fr in tb)


def exc_sig(prefix: str, exc: BaseException) -> str:
    return f"{prefix}:{type(exc).__name__}@{lib_frame(exc)}"


# --------------------------------------------------------------------------
# collection


class Collector:
    MAX_SAMPLES = 6

    def __init__(self) -> None:
        self.evals = 0
        self.nontrivial: set[int] = set()
        self.distinct: set[int] = set()
        self.classes: Counter = Counter()
        self.counts: Counter = Counter()
        self.samples: list = []  # (size, sample)
        self.failures: dict[str, dict] = {}

    def case(self, key, size: int, nontrivial: bool, sample=None, classes=()):
        self.evals += 1
        k = h64(key)
        new = k not in self.distinct
        self.distinct.add(k)
        if nontrivial:
            if k not in self.nontrivial:
                self.nontrivial.add(k)
                if sample is not None:
                    self._sample(size, sample)
        if new:
            for c in classes:
                self.classes[c] += 1

    def _sample(self, size, sample):
        s = self.samples
        if len(s) < self.MAX_SAMPLES:
            s.append((size, sample))
        else:
            # keep first two, and the largest seen
            i = min(range(2, len(s)), key=lambda j: s[j][0])
            if size > s[i][0]:
                s[i] = (size, sample)

    def count(self, name: str, k: int = 1):
        self.counts[name] += k

    def fail(self, sig: str, msg: str, replay: dict, size: int = 0):
        f = self.failures.get(sig)
        if f is None:
            self.failures[sig] = dict(sig=sig, msg=msg, replay=replay, size=size, n=1)
        else:
            f["n"] += 1
            if size < f["size"]:
                f.update(msg=msg, replay=replay, size=size)

    def result(self) -> dict:
        return dict(
            evals=self.evals,
            nontrivial=self.nontrivial,
            distinct=len(self.distinct),
            classes=self.classes,
            counts=self.counts,
            samples=self.samples,
            failures=self.failures,
        )


def merge(results: list[dict]) -> dict:
    out = dict(
        evals=0,
        nontrivial=set(),
        distinct=0,
        classes=Counter(),
        counts=Counter(),
        samples=[],
        failures={},
    )
    for r in results:
        out["evals"] += r["evals"]
        out["nontrivial"] |= r["nontrivial"]
        out["distinct"] += r["distinct"]
        out["classes"] += r["classes"]
        out["counts"] += r["counts"]
        out["samples"].extend(r["samples"])
        for sig, f in r["failures"].items():
            g = out["failures"].get(sig)
            if g is None:
                out["failures"][sig] = dict(f)
            else:
                n = g["n"] + f["n"]
                if f["size"] < g["size"]:
                    g.update(f)
                g["n"] = n
    return out


# --------------------------------------------------------------------------
# known findings


class Finding:
    def __init__(self, pid, fid, sig, witness, text):
        self.pid, self.fid, self.sig, self.witness, self.text = pid, fid, sig, witness, text


_f_re = re.compile(
    r"^finding:\s+property=(\S+)\s+id=(\S+)\s+sig=(\S+)\s+witness=(\S+)\s+::\s+(.*)$"
)


def load_findings(pid: str) -> list[Finding]:
    p = VERIF / "known_findings.txt"
    out = []
    if p.exists():
        for line in p.read_text().splitlines():
            m = _f_re.match(line.strip())
            if m and m.group(1) == pid:
                out.append(Finding(*m.groups()))
    return out


# --------------------------------------------------------------------------
# pool


def _init_worker():
    import logging

    logging.disable(logging.CRITICAL)
    sys.setrecursionlimit(10000)


def _run_spec(args):
    modname, spec = args
    mod = importlib.import_module(modname)
    t = time.time()
    r = mod.run(spec)
    r["counts"]["shard_wall_ms"] += int((time.time() - t) * 1000)
    return r


def run_pool(modname: str, specs: list, nproc: int = NPROC) -> list[dict]:
    if not specs:
        return []
    if nproc <= 1 or len(specs) == 1:
        _init_worker()
        return [_run_spec((modname, s)) for s in specs]
    ctx = mp.get_context("fork")
    with ctx.Pool(min(nproc, len(specs)), initializer=_init_worker, maxtasksperchild=None) as pool:
        return list(pool.imap_unordered(_run_spec, [(modname, s) for s in specs], chunksize=1))


# --------------------------------------------------------------------------
# main driver


def seed_from_env(default=1) -> int:
    try:
        return int(os.environ.get("VERIF_SEED", default))
    except ValueError:
        return default


def jsonable(o):
    if isinstance(o, dict):
        return {str(k): jsonable(v) for k, v in o.items()}
    if isinstance(o, (list, tuple, set, frozenset)):
        return [jsonable(x) for x in o]
    if isinstance(o, (str, int, float, bool)) or o is None:
        return o
    return repr(o)


def write_replay(pid: str, sig: str, fail: dict) -> Path:
    d = Path(os.environ.get("VPBT_FOUND_DIR", VERIF / "replays" / "found"))
    d.mkdir(parents=True, exist_ok=True)
    p = d / f"{pid}-{h64(sig):016x}.json"
    obj = dict(property=pid, sig=sig, msg=fail["msg"], input=jsonable(fail["replay"]))
    p.write_text(json.dumps(obj, indent=1, sort_keys=True) + "\n")
    return p


def main(argv=None) -> int:
    import argparse

    ap = argparse.ArgumentParser(prog="vpbt")
    ap.add_argument("pid")
    ap.add_argument("--tier", default=os.environ.get("VERIF_TIER", "quick"), choices=["quick", "thorough"])
    ap.add_argument("--seed", type=int, default=None)
    ap.add_argument("--replay", default=None)
    ap.add_argument("--nproc", type=int, default=NPROC)
    ap.add_argument("--no-evidence", action="store_true")
    args = ap.parse_args(argv)
    pid = args.pid.upper()
    seed = args.seed if args.seed is not None else seed_from_env()
    t0 = time.time()
    try:
        pin_environment()
        modname = f"vpbt.checks.{pid.lower()}"
        mod = importlib.import_module(modname)
        sys.setrecursionlimit(10000)
        if args.replay:
            return _replay_one(mod, pid, Path(args.replay))
        return _run_check(mod, modname, pid, args.tier, seed, args.nproc, t0, not args.no_evidence)
    except SystemExit:
        raise
    except BaseException:  # harness error, never a verdict
        traceback.print_exc()
        print(f"HARNESS-ERROR property={pid}")
        return 2


def _replay_one(mod, pid: str, path: Path) -> int:
    obj = json.loads(path.read_text())
    fails = mod.replay(obj["input"])
    if fails:
        for sig, msg in fails:
            print(f"replay: {sig} :: {msg}")
        print(f"VIOLATION property={pid} replay={path}")
        return 1
    print(f"replay of {path}: property holds on this input")
    return 0


def _run_check(mod, modname, pid, tier, seed, nproc, t0, write_evidence) -> int:
    findings = load_findings(pid)
    known_sigs = {f.sig: f for f in findings}
    for stale in Path(os.environ.get("VPBT_FOUND_DIR", VERIF / "replays" / "found")).glob(f"{pid}-*.json"):
        stale.unlink()
    violations: list[tuple[str, Path, str]] = []
    known_lines: list[str] = []
    replayed = Counter()

    # ---- replay tier: fixed regressions must hold, known witnesses reported
    fixed_dir = VERIF / "replays" / "fixed"
    if fixed_dir.is_dir():
        for p in sorted(fixed_dir.glob(f"{pid}-*.json")):
            obj = json.loads(p.read_text())
            fails = mod.replay(obj["input"])
            replayed["fixed"] += 1
            for sig, msg in fails:
                if sig in known_sigs:
                    continue
                violations.append((sig, p, msg))
                break
    for f in findings:
        p = VERIF / f.witness
        obj = json.loads(p.read_text())
        fails = mod.replay(obj["input"])
        replayed["known"] += 1
        sigs = [s for s, _ in fails]
        if f.sig in sigs:
            known_lines.append(f"KNOWN-FINDING: property={pid} {f.fid} {f.text}")
        for sig, msg in fails:
            if sig not in known_sigs:
                violations.append((sig, p, msg))

    # ---- main search
    specs = mod.plan(tier, seed)
    stride = int(os.environ.get("VPBT_SPEC_STRIDE", "1"))
    if stride > 1:  # reduced run (mutation analysis only): every n-th shard
        specs = specs[::stride]
    results = run_pool(modname, specs, nproc)
    merged = merge(results)
    excluded = 0
    for sig, fail in sorted(merged["failures"].items()):
        if sig in known_sigs:
            excluded += fail["n"]
            line = f"KNOWN-FINDING: property={pid} {known_sigs[sig].fid} {known_sigs[sig].text}"
            if line not in known_lines:
                known_lines.append(line)
            continue
        if hasattr(mod, "shrink"):
            try:
                fail = mod.shrink(fail)
            except Exception:
                traceback.print_exc()
        p = write_replay(pid, sig, fail)
        violations.append((sig, p, fail["msg"] + f" (x{fail['n']})"))

    for line in known_lines:
        print(line)
    seen = set()
    for sig, p, msg in violations:
        if (sig, str(p)) in seen:
            continue
        seen.add((sig, str(p)))
        print(f"violation-detail: {sig} :: {msg}")
        print(f"VIOLATION property={pid} replay={p}")

    wall = time.time() - t0
    if write_evidence:
        samples = sorted(merged["samples"], key=lambda s: s[0])
        if len(samples) > 8:
            idx = sorted({0, 1, len(samples) // 4, len(samples) // 2, 3 * len(samples) // 4, len(samples) - 2, len(samples) - 1})
            samples = [samples[i] for i in idx]
        cov = dict(
            evaluations=merged["evals"],
            distinct_nontrivial=len(merged["nontrivial"]),
            distinct_cases=merged["distinct"],
            rule=mod.RULE,
            samples=[jsonable(s[1]) for s in samples],
            classes=dict(sorted(merged["classes"].items())),
            counters={k: v for k, v in sorted(merged["counts"].items())},
            shards=len(specs),
            replayed=dict(replayed),
            excluded_by_known_finding=excluded,
            known_findings_reported=len(known_lines),
        )
        skipped = sum(v for k, v in merged["counts"].items() if "not_evaluated" in k)
        if skipped > merged["evals"]:
            cov["weak_run"] = f"{skipped} stage evaluations were skipped because a stage driver raised (see C02); this run explored little"
            print(f"WEAK-RUN property={pid}: {cov['weak_run']}")
        if hasattr(mod, "finalize"):
            mod.finalize(cov, merged, tier)
        ev = dict(
            property_id=pid,
            tier=tier,
            seed=seed,
            level="exploration",
            coverage=cov,
            assumptions=list(getattr(mod, "ASSUME", [])),
            wall_s=round(wall, 2),
            violations=len(seen),
        )
        d = VERIF / "evidence"
        d.mkdir(exist_ok=True)
        (d / f"{pid}.json").write_text(json.dumps(ev, indent=1, sort_keys=True) + "\n")
    print(
        f"{pid} tier={tier} seed={seed} evaluations={merged['evals']} "
        f"distinct_nontrivial={len(merged['nontrivial'])} violations={len(seen)} "
        f"known={len(known_lines)} wall={wall:.1f}s"
    )
    return 1 if seen else 0
