"""M10: canonical dump of a hierarchy.  ordered=True keeps dict insertion
order (C12: sensitive to names and to insertion order); ordered=False sorts
blocks by name (C15: insertion order is not part of the round-trip claim).
Successor order, back edges, tables and assignments are always kept."""

from __future__ import annotations

from numba_scfg.core.datastructures.basic_block import (
    PythonASTBlock,
    PythonBytecodeBlock,
    RegionBlock,
    SyntheticAssignment,
    SyntheticBranch,
)


def dump(scfg, ordered=True, depth=0):
    if depth > 2000:  # a guard against cyclic hierarchies only; 500-block combs nest 250 deep
        raise RecursionError("hierarchy too deep")
    items = list(scfg.graph.items())
    if not ordered:
        items.sort(key=lambda kv: kv[0])
    out = []
    for k, b in items:
        d = [k, b.name, type(b).__name__, list(b._jump_targets), list(b.backedges)]
        if isinstance(b, (PythonBytecodeBlock, PythonASTBlock)):
            d.append(("range", b.begin, b.end))
        if isinstance(b, PythonASTBlock):
            import ast

            d.append(("ast", [ast.unparse(n) for n in b.tree]))
        if isinstance(b, SyntheticBranch):
            tbl = list(b.branch_value_table.items())
            d.append(("branch", b.variable, tbl if ordered else sorted(tbl)))
        if isinstance(b, SyntheticAssignment):
            asg = list(b.variable_assignment.items())
            d.append(("assign", asg if ordered else sorted(asg)))
        if isinstance(b, RegionBlock):
            pr = b.parent_region
            d.append(("region", b.kind, b.header, b.exiting, getattr(pr, "name", pr), getattr(pr, "kind", None), dump(b.subregion, ordered, depth + 1)))
        out.append(d)
    return out


def first_diff(a, b, path="$"):
    if type(a) is not type(b):
        return f"{path}: {a!r} vs {b!r}"
    if isinstance(a, (list, tuple)):
        if len(a) != len(b):
            return f"{path}: length {len(a)} vs {len(b)}: {str(a)[:120]} vs {str(b)[:120]}"
        for i, (x, y) in enumerate(zip(a, b)):
            d = first_diff(x, y, f"{path}[{i}]")
            if d:
                return d
        return None
    if isinstance(a, dict):
        if list(a) != list(b) and set(a) != set(b):
            return f"{path}: keys {sorted(map(str, set(a) ^ set(b)))[:6]} differ"
        for k in a:
            d = first_diff(a[k], b[k], f"{path}.{k}")
            if d:
                return d
        return None
    return None if a == b else f"{path}: {a!r} vs {b!r}"
