"""M5: model of the graph edit primitives (C14), run side by side with the real
ones.  An `Exec` holds the real SCFG and a model of its top level; `apply(op)`
performs one operation on both and raises models.Viol when they disagree.

ops (JSON-able lists):
  ["init", graph_json, prestage]           prestage: "flat" | "loop" | "branch"
  ["insert", kind, P, S]                   kind: Exit|Tail|Return|Fill|raw
  ["ctrl", P, S]
  ["join_returns"]
  ["jte", tails, exits]
  ["level", region_name | None]            following ops act on that (sub)graph
"""

from __future__ import annotations

from numba_scfg.core.datastructures import block_names as BN
from numba_scfg.core.datastructures.basic_block import (
    RegionBlock,
    SyntheticAssignment,
    SyntheticBranch,
    SyntheticExit,
    SyntheticFill,
    SyntheticHead,
    SyntheticReturn,
    SyntheticTail,
)

from . import gen_graphs as gg
from . import models as M

KINDS = {
    "Exit": (SyntheticExit, BN.SYNTH_EXIT),
    "Tail": (SyntheticTail, BN.SYNTH_TAIL),
    "Return": (SyntheticReturn, BN.SYNTH_RETURN),
    "Fill": (SyntheticFill, BN.SYNTH_FILL),
    "raw": (SyntheticTail, BN.SYNTH_TAIL),
}


def snap(b):
    """comparable snapshot of a top-level block."""
    d = dict(type=type(b).__name__, jt=tuple(b._jump_targets), be=tuple(b.backedges))
    if hasattr(b, "begin"):
        d["range"] = (b.begin, b.end)
    if isinstance(b, SyntheticBranch):
        d["var"] = b.variable
        d["table"] = dict(b.branch_value_table)
    if isinstance(b, SyntheticAssignment):
        d["assign"] = dict(b.variable_assignment)
    if isinstance(b, RegionBlock):
        d["region"] = (b.kind, b.header, b.exiting)
    return d


class Exec:
    def __init__(self):
        self.real = None
        self.cur = None  # the (sub)graph the edit operations act on
        self.orig = None  # initial flat graph (for path preservation)
        self.paths_ok = True  # history so far preserves paths by construction
        self.flags = set()
        self.nops = 0

    # ------------------------------------------------------------------
    def top(self):
        return {k: snap(b) for k, b in self.cur.graph.items()}

    def _op_level(self, rname):
        if rname is None:
            self.cur = self.real
            return
        flat = M.Flat(self.real)
        if rname not in flat.regions:
            raise ValueError(f"no region {rname}")
        self.cur = flat.regions[rname].subregion
        self.flags.add("sublevel")

    def apply(self, op):
        kind = op[0]
        getattr(self, "_op_" + kind)(*op[1:])
        self.nops += 1
        self._invariants()

    def _call(self, fn, *a):
        try:
            return fn(*a)
        except Exception as e:
            raise M.Viol(f"E-raise:{type(e).__name__}", f"{getattr(fn, '__name__', fn)}{a!r} raised {type(e).__name__}: {e}")

    # ------------------------------------------------------------------
    def _op_init(self, graph_json, prestage):
        g = gg.graph_from_json(graph_json)
        self.orig = g
        self.real = M.mk_scfg(g, "bytecode" if next(iter(g)).startswith("python_bytecode") else "plain")
        if prestage == "typed":
            # a graph as a caller may hand it over (dict / YAML input with typed blocks): some blocks already are
            # synthetic tails / exits / fills and branching synthetic blocks with value tables; which ones is a
            # function of the block names only.  Paths are not judged for such graphs (their variables are unassigned).
            from numba_scfg.core.datastructures.basic_block import SyntheticExitBranch
            from numba_scfg.core.datastructures.scfg import SCFG

            from .core import h64

            blocks = {}
            for k, b in self.real.graph.items():
                jt = tuple(b._jump_targets)
                h = h64(("typed", k, jt)) % 8
                if len(jt) == 1 and h < 5:
                    blocks[k] = (SyntheticTail, SyntheticExit, SyntheticFill, SyntheticTail, SyntheticTail)[h](name=k, _jump_targets=jt, backedges=())
                elif len(jt) >= 2 and len(set(jt)) == len(jt) and h < 6:
                    cls = (SyntheticBranch, SyntheticHead, SyntheticExitBranch, SyntheticBranch, SyntheticHead, SyntheticExitBranch)[h]
                    table = {i: t for i, t in enumerate(jt)}
                    table[len(jt)] = jt[h % 2]
                    blocks[k] = cls(name=k, _jump_targets=jt, backedges=(), variable=f"__scfg_control_var_{k}__", branch_value_table=table)
                elif len(jt) >= 2 and len(set(jt)) == len(jt):
                    blocks[k] = (SyntheticExit, SyntheticTail)[h % 2](name=k, _jump_targets=jt, backedges=())  # what join_tails_and_exits leaves behind
                else:
                    blocks[k] = b
            self.real = SCFG(blocks)
            self.paths_ok = False
            self.flags.add("typed_init")
        if prestage in ("loop", "branch"):
            self._call(self.real.join_returns)
            self._call(self.real.restructure_loop)
        if prestage == "branch":
            # fully restructured: top-level predecessors are regions whose
            # exiting blocks are regions themselves
            self._call(self.real.restructure_branch)
        self.cur = self.real

    def _op_insert(self, kind, P, S):
        real = self.cur
        cls, bn = KINDS[kind]
        before = self.top()
        new = real.name_gen.new_block_name(bn)
        if new in before:
            raise M.Viol("E-name", f"generated name {new} already exists")
        if kind == "raw":
            self._call(real.insert_block, new, list(P), list(S), cls)
        else:
            self._call(getattr(real, "insert_Synthetic" + kind), new, list(P), list(S))
        after = self.top()
        if set(after) != set(before) | {new}:
            raise M.Viol("E-blocks", f"insert: block set changed by {sorted(set(after) ^ set(before))}, expected only +{new}")
        nb = after[new]
        if nb["type"] != cls.__name__ or nb["jt"] != tuple(S) or nb["be"] != ():
            raise M.Viol("E-new", f"inserted block {new} is {nb}, expected {cls.__name__} with successors {tuple(S)}")
        merged = False
        for k in before:
            b, a = before[k], after[k]
            if k not in P:
                if a != b:
                    raise M.Viol("E-other", f"insert({P},{S}) changed block {k} which is not a predecessor: {b} -> {a}")
                continue
            old, cur = list(b["jt"]), list(a["jt"])
            if S:
                hits = [i for i, t in enumerate(old) if t in S]
                rest = [t for t in old if t not in S]
                if [t for t in cur if t != new] != rest:
                    raise M.Viol("E-rest", f"insert({P},{S}): remaining successors of {k} changed: {old} -> {cur}")
                if hits:
                    if cur.count(new) != 1:
                        raise M.Viol("E-arc", f"insert({P},{S}): {k} had arcs into S, now {cur}")
                    r = cur.index(new)  # number of remaining successors before the new block
                    ok = any(sum(1 for i in range(h) if i not in hits) == r for h in hits)
                    if not ok:
                        raise M.Viol("E-pos", f"insert({P},{S}): new block takes position {r} in {cur}, former {old}")
                    merged = merged or len(hits) > 1
                elif new in cur:
                    raise M.Viol("E-arc-extra", f"insert({P},{S}): {k} had no arc into S but now targets {new}")
            else:
                if cur != old + [new]:
                    raise M.Viol("E-append", f"insert({P},[]): {k}: {old} -> {cur}, expected the new block appended")
            # everything but the targets (and the table) is unchanged
            for f in ("type", "be", "var", "assign", "range"):
                if a.get(f) != b.get(f):
                    raise M.Viol("E-pred-field", f"insert changed {f} of predecessor {k}: {b.get(f)} -> {a.get(f)}")
            if "region" in b and a["region"] != b["region"]:
                raise M.Viol("E-pred-field", f"insert changed header/exiting of region predecessor {k}")
            if "table" in b:
                if set(a["table"]) != set(b["table"]):
                    raise M.Viol("E-table-keys", f"insert: value table keys of {k} changed {b['table']} -> {a['table']}")
                for key, t in b["table"].items():
                    want = new if (S and t in S) else t
                    if a["table"][key] != want:
                        raise M.Viol("E-table", f"insert({P},{S}): table of {k}: {b['table']} -> {a['table']}")
                self.flags.add("branching_pred")
            if "region" in b:
                self.flags.add("region_pred")
        if merged:
            self.flags.add("merged")
        # plain insertion merges arcs: paths are not claimed afterwards when
        # the new block has more than one successor
        if len(S) > 1 or not S:
            if len(S) > 1:
                self.paths_ok = False

    def _op_ctrl(self, P, S):
        real = self.cur
        before = self.top()
        blocks_before = dict(real.graph)
        new = real.name_gen.new_block_name(BN.SYNTH_HEAD)
        self._call(real.insert_block_and_control_blocks, new, list(P), list(S))
        after = self.top()
        if new not in after:
            raise M.Viol("E-new", f"ctrl: new head {new} missing")
        nb = real.graph[new]
        if not isinstance(nb, SyntheticHead) or nb._jump_targets != tuple(S) or nb.backedges != ():
            raise M.Viol("E-new", f"ctrl: new head is {snap(nb)}, expected SyntheticHead with successors {tuple(S)}")
        added = set(after) - set(before) - {new}
        used = set()
        for k in before:
            b, a = before[k], after[k]
            if k not in P:
                if a != b:
                    raise M.Viol("E-other", f"ctrl({P},{S}) changed block {k} which is not a predecessor")
                continue
            old, cur = list(b["jt"]), list(a["jt"])
            if len(old) != len(cur):
                raise M.Viol("E-arity", f"ctrl({P},{S}): arity of {k} changed {old} -> {cur}")
            for o, c in zip(old, cur):
                if o in S:
                    ab = real.graph.get(c)
                    if c not in added or not isinstance(ab, SyntheticAssignment) or ab._jump_targets != (new,):
                        raise M.Viol("E-ctrl-arc", f"ctrl({P},{S}): arc {k}->{o} now goes to {c} which is not a fresh assignment block leading to {new}")
                    if c in used:
                        raise M.Viol("E-ctrl-shared", f"ctrl({P},{S}): assignment block {c} serves two arcs")
                    used.add(c)
                    v = ab.variable_assignment.get(nb.variable)
                    if v not in nb.branch_value_table or nb.branch_value_table[v] != o:
                        raise M.Viol("E-ctrl-value", f"ctrl({P},{S}): arc {k}->{o}: {c} assigns {ab.variable_assignment}, head table {nb.branch_value_table}")
                elif o != c:
                    raise M.Viol("E-rest", f"ctrl({P},{S}): successor {o} of {k} not in S became {c}")
            for f in ("type", "be", "var", "assign", "range"):
                if a.get(f) != b.get(f):
                    raise M.Viol("E-pred-field", f"ctrl changed {f} of predecessor {k}")
            if "table" in b:
                m = dict(zip(old, cur))
                for key, t in b["table"].items():
                    if a["table"].get(key) != m.get(t, t):
                        raise M.Viol("E-table", f"ctrl({P},{S}): table of {k}: {b['table']} -> {a['table']}")
                self.flags.add("branching_pred")
            if "region" in b:
                self.flags.add("region_pred")
        if added != used:
            raise M.Viol("E-blocks", f"ctrl({P},{S}): extra blocks {sorted(added - used)}")
        if set(nb.branch_value_table.values()) != set(S) and all(any(s in before[p]["jt"] for p in P) for s in S):
            raise M.Viol("E-ctrl-table", f"ctrl({P},{S}): head table {nb.branch_value_table} does not cover S")

    def _op_join_returns(self):
        real = self.cur
        before = self.top()
        exits = [k for k, b in before.items() if not [t for t in b["jt"] if t not in b["be"]]]
        self._call(real.join_returns)
        after = self.top()
        if len(exits) <= 1:
            if after != before:
                raise M.Viol("E-jr-noop", f"join_returns changed a graph with {len(exits)} exit")
            return
        new = sorted(set(after) - set(before))
        if len(new) != 1 or set(before) - set(after):
            raise M.Viol("E-blocks", f"join_returns: block set changed by +{new} -{sorted(set(before) - set(after))}")
        n = new[0]
        if after[n]["type"] != "SyntheticReturn" or after[n]["jt"] != ():
            raise M.Viol("E-new", f"join_returns inserted {after[n]}")
        for k in before:
            if k in exits:
                if list(after[k]["jt"]) != list(before[k]["jt"]) + [n]:
                    raise M.Viol("E-jr-arc", f"join_returns: former exit {k}: {before[k]['jt']} -> {after[k]['jt']}")
            elif after[k] != before[k]:
                raise M.Viol("E-other", f"join_returns changed non-exit block {k}")
        now = [k for k, b in after.items() if not [t for t in b["jt"] if t not in b["be"]]]
        if now != [n]:
            raise M.Viol("E-jr-one", f"join_returns leaves exits {now}")

    def _op_jte(self, tails, exits):
        real = self.cur
        before = self.top()
        arcs = [(t, x) for t in tails for x in before[t]["jt"] if x in exits]
        # classes worth counting: a tail that also jumps to another tail; a branching (tabled) tail; a synthetic tail/exit among the tails
        if any(y in tails for t in tails for y in before[t]["jt"]):
            self.flags.add("jte_tail_to_tail")
        if any("table" in before[t] for t in tails):
            self.flags.add("jte_branching_tail")
        if any(before[t]["type"] in ("SyntheticTail", "SyntheticExit") for t in tails):
            self.flags.add("jte_synthetic_tail")
        if any("table" in before[t] and any(y in tails and before[y]["type"] in ("SyntheticTail", "SyntheticExit") for y in before[t]["jt"]) for t in tails):
            self.flags.add("jte_branching_tail_to_synthetic_tail")
        st, sx = self._call(real.join_tails_and_exits, list(tails), list(exits))
        after = self.top()
        if st not in after:
            raise M.Viol("E-jte-tail", f"join_tails_and_exits returned tail {st!r} which does not exist")
        if sx not in after and sx not in exits:
            raise M.Viol("E-jte-exit", f"join_tails_and_exits returned exit {sx!r} which does not exist")
        if len(tails) == 1 and len(exits) == 1 and after != before:
            raise M.Viol("E-jte-noop", "join_tails_and_exits(1 tail, 1 exit) changed the graph")
        for t, x in arcs:
            # t -> [solo tail] -> [solo exit] -> x
            cur = t
            path = [cur]
            if st != t:
                if st not in after[cur]["jt"]:
                    raise M.Viol("E-jte-arc", f"arc {t}->{x}: {t} does not lead to the solo tail {st}: {after[cur]['jt']}")
                cur = st
                path.append(cur)
            if sx != x:
                if sx not in after[cur]["jt"]:
                    raise M.Viol("E-jte-arc", f"arc {t}->{x}: {cur} does not lead to the solo exit {sx}: {after[cur]['jt']}")
                cur = sx
                path.append(cur)
            if cur != x and x not in after[cur]["jt"]:
                raise M.Viol("E-jte-arc", f"arc {t}->{x}: {cur} does not lead to {x}: {after[cur]['jt']}")
            if x in after[t]["jt"] and (st != t or sx != x):
                raise M.Viol("E-jte-direct", f"arc {t}->{x} still exists beside the joined path")
        for t in tails:
            # a branching tail keeps every key of its value table; the values that named an exit now name the joined path
            if "table" in before[t] and t in after and "table" in after[t]:
                tb, ta = before[t]["table"], after[t]["table"]
                if set(ta) != set(tb):
                    raise M.Viol("E-table-keys", f"join_tails_and_exits: value table keys of tail {t} changed {tb} -> {ta}")
                for k_, old in tb.items():
                    if old not in exits and ta[k_] != old:
                        raise M.Viol("E-table", f"join_tails_and_exits: table entry {k_} of tail {t} was {old} (not an exit), is now {ta[k_]}")
                    if old in exits and (ta[k_] not in (st, sx, old) or ta[k_] not in after[t]["jt"]):
                        raise M.Viol("E-table", f"join_tails_and_exits: table entry {k_} of tail {t} named exit {old}, now names {ta[k_]}")
        for k in before:
            if k not in tails and after[k] != before[k]:
                raise M.Viol("E-other", f"join_tails_and_exits changed block {k} which is not a tail")
        extra = set(after) - set(before) - {st, sx}
        if extra:
            raise M.Viol("E-blocks", f"join_tails_and_exits added {sorted(extra)}")
        for t in tails:
            rest_b = [y for y in before[t]["jt"] if y not in exits]
            rest_a = [y for y in after[t]["jt"] if y not in exits and not (y in (st, sx) and y not in before[t]["jt"])]
            if rest_a != rest_b:
                raise M.Viol("E-rest", f"join_tails_and_exits: other successors of tail {t}: {before[t]['jt']} -> {after[t]['jt']}")
        if len(exits) > 1 and len(tails) >= 1:
            self.paths_ok = False

    # ------------------------------------------------------------------
    def _op_restructure(self):
        """the whole pipeline on the edited graph.  NOT used by the check: a graph that already contains caller-made
        synthetic branching blocks is outside the input domain of C01/C02/C06 (see DESIGN corrections log 15); kept
        for replaying the two witnesses of that exploration."""
        self._call(self.real.restructure)
        self.cur = self.real
        self.flags.add("then_restructure")

    def _invariants(self):
        flat = M.check_hierarchy(self.real)
        M.check_tables(flat)
        if self.paths_ok and self.orig is not None:
            try:
                M.walk_flat(self.orig, self.real, flat)
            except M.Inconclusive:
                pass


def run_history(ops):
    """Plain replay.  Returns (exec, None) or (exec, Viol)."""
    ex = Exec()
    try:
        for op in ops:
            ex.apply(op)
    except M.Viol as v:
        return ex, v
    return ex, None
