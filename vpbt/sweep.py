"""Shared driver for the graph-level checks (C01-C06, C16, C17, C12 inputs):
enumerated small scopes + Hypothesis-drawn graphs + corpus shapes, sharded.

A spec is a tuple whose first item is the kind:
  ("enum", n, shard, nshards, stride, offset)
  ("canon", n, shard, nshards, stride, relabels, seed)
  ("hyp", seed, shard, examples, max_n)
  ("corpus", shard, nshards, limit)
  ("fuzz", check module, seed, shard, runs, max_n, "empty"|"corpus")   coverage-guided campaign in a child process (fuzz_child.py)
"""

from __future__ import annotations

import random as _random  # only for deterministic, seed-derived relabellings of enumerated graphs

from hypothesis import HealthCheck, Phase, given, seed as hseed, settings, strategies as st

from . import gen_graphs as gg
from .core import Collector, h64


def fuzz_specs(tier, seed, modname, scale=1.0):
    """16 libFuzzer campaigns (half from an empty corpus, half from a few enumerated graphs)."""
    if not modname:
        return []
    runs = max(200, int((2500 if tier == "quick" else 12000) * scale))
    max_n = 12 if tier == "quick" else 20
    # quick: too short for an empty corpus to grow beyond chains, so every campaign starts from enumerated graphs
    return [("fuzz", modname, seed, s, runs, max_n, "corpus" if tier == "quick" else ("empty", "corpus")[s % 2]) for s in range(16)]


def plan(tier: str, seed: int, scale: float = 1.0, max_n_quick=14, max_n_thorough=32, corpus=True, fuzz_mod=None):
    specs = fuzz_specs(tier, seed, fuzz_mod, scale)
    if fuzz_mod:  # the checks of the restructuring pipeline proper (not C15 / C17, which scale the sweep down)
        from .checks import c02

        specs += [("big", k) for k, (f, n) in enumerate(c02.BIG) if (n in (257, 300) and f.__name__ != "_big_ladder") or f.__name__ in ("_big_comb", "_big_nest", "_big_exits", "_big_entries", "_big_exits_joined")]
    if tier == "quick":
        specs.append(("enum", 1, 0, 1, 1, 0))
        specs.append(("enum", 2, 0, 1, 1, 0))
        specs.append(("enum", 3, 0, 1, 1, 0))
        specs.append(("enum", 4, 0, 1, 1, 0))
        stride = max(1, int(round(2 / scale)))
        for s in range(16):
            specs.append(("enum", 5, s, 16, stride, seed % stride))
        ex = max(20, int(400 * scale))
        for s in range(16):
            specs.append(("hyp", seed, s, ex, max_n_quick))
        for s in range(16):
            # extra weight on the two structure-building modes: loop nests in nested contexts, composed graphs
            specs.append(("hypmode", seed, s, max(10, int((300, 120, 300, 150)[s % 4] * scale)), max_n_quick, ("nests", "compose", "nests", "wide")[s % 4]))
        if corpus:
            for s in range(8):
                specs.append(("corpus", s, 8, max(10, int(100 * scale))))
            for s in range(4):
                specs.append(("srcshape", seed, s, max(20, int(150 * scale))))
    else:
        for n in (1, 2, 3, 4):
            specs.append(("enum", n, 0, 1, 1, 0))
        for s in range(32):
            specs.append(("enum", 5, s, 32, 1, 0))
        for s in range(16):
            specs.append(("canon", 6, s, 16, max(1, int(round(4 / scale))), 2, seed))
        for s in range(16):
            specs.append(("canon", 7, s, 16, max(1, int(round(150 / scale))), 2, seed))
        ex = max(50, int(600 * scale))
        for s in range(32):
            specs.append(("hyp", seed, s, ex, max_n_thorough))
        for s in range(32):
            specs.append(("hypmode", seed, s, max(30, int(900 * scale)), max_n_thorough, ("nests", "compose", "nests", "wide")[s % 4]))
        if corpus:
            for s in range(16):
                specs.append(("corpus", s, 16, 10**9))
            for s in range(16):
                specs.append(("srcshape", seed, s, max(50, int(1500 * scale))))
    return specs


def _perm(n, key):
    r = _random.Random(key)
    p = list(range(n))
    r.shuffle(p)
    return p


def iterate(spec, visit):
    """Calls visit(intg, named_graph, origin) for every case of the spec."""
    kind = spec[0]
    if kind == "enum":
        _, n, shard, nshards, stride, offset = spec
        k = 0
        for g in gg.enum_labelled(n, shard, nshards):
            k += 1
            if k % stride != offset % stride:
                continue
            visit(g, gg.restyle(g, "num"), f"enum{n}")
    elif kind == "canon":
        _, n, shard, nshards, stride, relabels, seed = spec
        k = 0
        for g in gg.enum_canonical(n, shard, nshards):
            k += 1
            if k % stride != seed % stride:
                continue
            visit(g, gg.restyle(g, "num"), f"canon{n}")
            for j in range(relabels):
                style = ("perm", "alpha", "bytecode")[j % 3]
                visit(g, gg.restyle(g, style, _perm(n, h64((seed, k, j)))), f"canon{n}")
    elif kind in ("hyp", "hypmode"):
        if kind == "hypmode":
            _, seed, shard, examples, max_n, mode = spec
            modes = [mode]
        else:
            _, seed, shard, examples, max_n = spec
            modes = gg.MODES

        @hseed(h64(("sweep", seed, shard, tuple(modes) if kind == "hypmode" else None)))
        @settings(
            max_examples=examples,
            database=None,
            deadline=None,
            derandomize=False,
            report_multiple_bugs=False,
            phases=[Phase.generate],
            suppress_health_check=[HealthCheck.too_slow, HealthCheck.data_too_large],
        )
        @given(g=gg.closed_cfgs(max_n=max_n, modes=modes), style=st.sampled_from(gg.STYLES), pk=st.integers(0, 2**20))
        def t(g, style, pk):
            named = gg.restyle(g, style, _perm(len(g), pk) if style in ("perm", "alpha", "gen", "zpad", "words") else None)
            visit(g, named, "hyp")

        t()
    elif kind == "corpus":
        from . import bytecode_model as bm

        _, shard, nshards, limit = spec
        n = 0
        for label, code in bm.corpus_codes(shard, nshards):
            if n >= limit:
                break
            if not bm.eligible(code):
                continue
            g = bm.shape_of(code)
            if g is None or len(g) < 3 or len(g) > 120:
                continue
            n += 1
            visit(g, gg.restyle(g, "bytecode"), "corpus")
    elif kind == "srcshape":
        # CFG shapes the source front end really produces (library front end
        # used as a generator of shapes only; graphs that are not closed CFGs
        # are the front end's business - C07/C08 - and are skipped here)
        from numba_scfg.core.datastructures.ast_transforms import AST2SCFG

        from . import gen_programs as gp

        _, seed, shard, examples = spec

        @hseed(h64(("srcshape", seed, shard)))
        @settings(max_examples=examples, database=None, deadline=None, phases=[Phase.generate], suppress_health_check=list(HealthCheck))
        @given(src=gp.programs(max_depth=4))
        def t2(src):
            try:
                scfg = AST2SCFG(src)
            except Exception:
                return
            named = {k: tuple(b._jump_targets) for k, b in scfg.graph.items()}
            tg = {t for v in named.values() for t in v}
            heads = [k for k in named if k not in tg]
            if len(heads) != 1 or any(t not in named for t in tg):
                return
            order = [heads[0]] + [k for k in named if k != heads[0]]
            idx = {k: i for i, k in enumerate(order)}
            intg = {idx[k]: tuple(idx[t] for t in named[k]) for k in order}
            if not gg.is_closed(intg):
                return
            visit(intg, {k: named[k] for k in order}, "srcshape")

        t2()
    elif kind == "big":
        # large regular graphs across size thresholds (small-int cache at 256 ...)
        from .checks import c02

        f, n = c02.BIG[spec[1]]
        g = f(n)
        visit(g, gg.restyle(g, "num"), "big")
    else:
        raise ValueError(kind)


def run_fuzz(spec):
    import os
    import pickle
    import subprocess
    import sys
    import tempfile

    from .core import REPO, VERIF

    import json

    modname, shard = spec[1], spec[3]
    work = VERIF / ".work"
    work.mkdir(exist_ok=True)
    fd, out = tempfile.mkstemp(prefix=f"fuzz-{modname.split('.')[-1]}-{shard}-", suffix=".pkl", dir=work)
    os.close(fd)
    env = dict(os.environ, PYTHONPATH=f"{REPO}:{VERIF}", PYTHONHASHSEED="0", PYTHONDONTWRITEBYTECODE="1", VERIF_REPO=str(REPO))
    try:
        p = subprocess.run([sys.executable, "-m", "vpbt.fuzz_child", json.dumps(list(spec)), out], cwd=VERIF, env=env, capture_output=True, text=True)
        if p.returncode == 3:
            col = Collector()
            col.count("fuzz_skipped_no_atheris")
            return col.result()
        if p.returncode != 0 or os.path.getsize(out) == 0:
            raise RuntimeError(f"fuzz child {modname} shard {shard} exit {p.returncode}: {(p.stdout + p.stderr)[-1500:]}")
        with open(out, "rb") as f:
            return pickle.load(f)
    finally:
        import shutil

        if os.path.exists(out):
            os.unlink(out)
        shutil.rmtree(out + ".corpus", ignore_errors=True)


def run(spec, evaluate):
    if spec[0] == "fuzz":
        return run_fuzz(spec)
    col = Collector()

    def visit(intg, named, origin):
        col.count("origin_" + origin)
        evaluate(col, intg, named, origin)

    iterate(spec, visit)
    return col.result()
